SPECIFICATION GSpec
CONSTANTS
  Hashes <- SHashes
  PrevFn <- SPrev
  BCs <- SBCs
  BCHashFn <- SBCHash
  TXs <- MCTXs
  TXBlockFn <- MCTXBlock
  Keys <- MCKeys
  Vals <- MCVals
  Depth = 3
CHECK_DEADLOCK FALSE
