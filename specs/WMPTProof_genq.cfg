SPECIFICATION PSpec
CONSTANTS
  Tries <- MCTriesG
  MaxEdits = 2
  AllowReweight = TRUE
  GenMode = TRUE
INVARIANTS Complete EmitPlan
CHECK_DEADLOCK FALSE
