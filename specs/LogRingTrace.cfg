SPECIFICATION TraceSpec
CONSTANTS
  Cap = 1024
  Sizes = {}
  MaxLoggers = 0
  Depth = 0
  GenMode = FALSE
INVARIANT Report
CHECK_DEADLOCK FALSE
