SPECIFICATION TSpec
CONSTANTS
  Paths <- TPaths4
  Values <- TValues2
  Children <- TChildren3
  Depth = 9
  GenMode = TRUE
CHECK_DEADLOCK FALSE
