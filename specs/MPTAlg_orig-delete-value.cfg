SPECIFICATION ASpec
CONSTANTS
  Paths <- APaths
  Values <- AValues
  Variant = "orig-delete-value"
INVARIANTS Refines ResultOK
CHECK_DEADLOCK FALSE
