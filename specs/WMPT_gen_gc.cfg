SPECIFICATION SpecGC
CONSTANTS
  NKeys = 1
  ReW = {}
  Vals <- MCVals1
  Wt <- MCWt
  Depth = 7
  GenMode = TRUE
CHECK_DEADLOCK FALSE
