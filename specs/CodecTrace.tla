------------------------------ MODULE CodecTrace ------------------------------
(* C15: every input, for every decoder: the outcome is "ok" or "err" (never a *)
(* panic or a timeout), and anything accepted re-encodes without panicking.   *)
EXTENDS Naturals, Sequences, FiniteSets, TLC, Json, IOUtils
Trace == ndJsonDeserialize(IOEnv.TRACE)
VARIABLES l, bad, nbad, ntr
tvars == <<l, bad, nbad, ntr>>
MaxBad == 40
\* deviations are kept per class (operation, failed checks, deviation flags): a flood of one class never hides another
KeepBad(bd, op, fl, dv) == Cardinality({b \in bd : b[3] = op /\ b[4] = fl /\ b[5] = dv}) < 6 /\ Cardinality(bd) < 40 * MaxBad
Flag(cond, name) == IF cond THEN {} ELSE {name}
Targets == {"mpt", "wnode", "wpath", "wproof"}
EventFlags(e) ==
  UNION {Flag(e[t] \in {"ok", "err"}, IF e[t] = "timeout" THEN "timeout-" \o t ELSE "panic-" \o t) : t \in Targets}
  \cup UNION {Flag(e[t \o "re"] \in {"ok", "none"}, "reencode-" \o t) : t \in Targets}
TraceInit == l = 1 /\ bad = {} /\ nbad = 0 /\ ntr = 0
TraceNext ==
  /\ l <= Len(Trace)
  /\ LET e == Trace[l] f == EventFlags(e) IN
     /\ l' = l + 1 /\ ntr' = ntr + 1
     /\ nbad' = IF f = {} THEN nbad ELSE nbad + 1
     /\ bad' = IF f = {} \/ ~KeepBad(bad, e.op, f, {}) THEN bad ELSE bad \cup {<<e.tid, l, e.op, f, {}>>}
TraceSpec == TraceInit /\ [][TraceNext]_tvars
Report == l <= Len(Trace) \/ PrintT(<<"VERIF_RESULT", l - 1, ntr, nbad, bad>>)
=============================================================================
