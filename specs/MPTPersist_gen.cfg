SPECIFICATION Spec
CONSTANTS
  Keys = {0, 1, 2}
  Vals = {"a", "b"}
  MaxVer = 4
  MaxOps = 3
  OriginInId = TRUE
  PruneSlack = 0
  GenDepth = 22
CHECK_DEADLOCK FALSE
