------------------------------- MODULE MPTGen -------------------------------
(***************************************************************************)
(* Model-based test generation from MPT.tla.                               *)
(*  Mode "hist":  every behaviour of the specification of exactly Depth    *)
(*                operations from the empty trie is emitted as JSON.       *)
(*  Mode "trans": one test per transition of the complete state graph:     *)
(*                (content before, operation); the executor builds the     *)
(*                content and applies the operation.                       *)
(* Lines are printed as <<"VERIF_HIST", json>> and collected by bin/check. *)
(***************************************************************************)
EXTENDS MPT, Json

CONSTANTS Mode, Depth

VARIABLES hist

gvars == <<content, hist>>

OpIns(p, v)   == [op |-> "ins", p |-> p, v |-> v]
OpDel(p)      == [op |-> "del", p |-> p, v |-> ""]
OpEmpty(p)    == [op |-> "insEmpty", p |-> p, v |-> ""]
OpBig(p)      == [op |-> "insBig", p |-> p, v |-> ""]

Emit(init, ops) == PrintT(<<"VERIF_HIST", ToJson([init |-> init, ops |-> ops])>>)

GInit == content = EmptyContent /\ hist = <<>>

Step(op, c2) ==
  /\ content' = c2
  /\ IF Mode = "hist"
     THEN /\ Len(hist) < Depth
          /\ hist' = Append(hist, op)
          /\ (IF Len(hist') < Depth THEN TRUE ELSE Emit({}, hist'))
     ELSE /\ hist' = hist
          /\ Emit(Pairs(content), <<op>>)

GNext ==
  \E p \in Paths :
     \/ \E v \in Values : Step(OpIns(p, v), InsertResp(content, p, v).c)
     \/ Step(OpDel(p), DeleteResp(content, p).c)
     \/ (Mode = "trans" /\ p \in {<<>>, <<"0","0">>} /\ Step(OpEmpty(p), DeleteResp(content, p).c))

GSpec == GInit /\ [][GNext]_gvars
=============================================================================
