SPECIFICATION SSpecGen
CONSTANTS
  Paths <- TPaths2
  Values <- TValues2
  Children <- TChildren
  Depth = 0
  GenMode = TRUE
CHECK_DEADLOCK FALSE
