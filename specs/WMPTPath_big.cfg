SPECIFICATION PSpec
CONSTANTS
  NKeys = 0
  Vals = {}
  Wt = {}
  Depth = 0
  GenMode = TRUE
  PKeys = {0, 1, 3, 5}
  AKeys = {100}
  MaxOps = 3
INVARIANTS EmitAll OnlyRequested
CHECK_DEADLOCK FALSE
