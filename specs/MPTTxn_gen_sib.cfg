SPECIFICATION SSpecSib
CONSTANTS
  Paths <- TPathsSib
  Values <- TValues
  Children <- TChildren
  Depth = 0
  GenMode = TRUE
CHECK_DEADLOCK FALSE
