SPECIFICATION PSpec
CONSTANTS
  Tries <- MCTriesQ
  MaxEdits = 2
  AllowImitate = TRUE
  AllowReweight = FALSE
  GenMode = FALSE
INVARIANTS Complete Sound
CHECK_DEADLOCK FALSE
