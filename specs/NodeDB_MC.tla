------------------------------ MODULE NodeDB_MC ------------------------------
EXTENDS NodeDB
T(c1, p1, c2, p2) == [c1 |-> c1, p1 |-> p1, c2 |-> c2, p2 |-> p2]
\* transaction level over block level over a memory base / over the persistent store / block level whose current is persistent
MCTopos == {T("m1", "m2", "m3", "l1"), T("m1", "p", "m3", "l1"), T("p", "m2", "m3", "l1")}
MCToposQ == {T("m1", "m2", "m3", "l1")}
=============================================================================
