package exec

import (
	"bytes"
	"fmt"
	"math/rand"
	"sort"
	"strconv"
	"strings"
	"sync"

	"verifharness/bridge"
	"verifharness/tr"

	"github.com/0chain/common/core/util/storage"
	"github.com/0chain/common/core/util/wmpt"
)

// WOp is one operation of a weighted-trie history.
type WOp struct {
	Op    string `json:"op"`
	K     int    `json:"k"`
	V     string `json:"v,omitempty"`
	Level int    `json:"level,omitempty"`
}

// WHist is a weighted-trie history.
type WHist struct {
	Mode  string `json:"mode,omitempty"`  // generator mode (coverage bookkeeping only)
	Uni   string `json:"uni,omitempty"`   // key universe: "" / "w" (WKeys), "head", "tail" (shape universes)
	Sub   []int  `json:"sub,omitempty"`   // sorted selection of the universe's keys (ranks of the history index into it)
	Scale uint64 `json:"scale,omitempty"` // weight scale (0 = chosen by trace number); set by replays
	Ops   []WOp  `json:"ops"`
}

// shapeKeys is a shape-complete universe: 16 keys whose nibbles at four
// consecutive positions (from) range over {0,1}, all other nibbles 0.  Over its
// subsets every local trie shape occurs: branches directly below branches,
// one- and two-nibble extensions in front of a branch, leaves with a rest of
// zero, one, two (tail) or ~60 (head) nibbles.  Rank order = byte order.
func shapeKeys(from int) [][]byte {
	var keys [][]byte
	for i := 0; i < 16; i++ {
		nib := make([]byte, 64)
		for b := 0; b < 4; b++ {
			nib[from+b] = byte(i >> (3 - b) & 1)
		}
		k := make([]byte, 32)
		for j := range k {
			k[j] = nib[2*j]<<4 | nib[2*j+1]
		}
		keys = append(keys, k)
	}
	return keys
}

// wideKeys is a fan-out universe: 16 keys that differ in the nibble at one position (all sixteen values), every other
// nibble 0 (position 1: below a common first nibble 3): one branch with up to sixteen children, at the root, one level
// down, or at the very end of the key.  Rank order = byte order.
func wideKeys(pos int) [][]byte {
	var keys [][]byte
	for i := 0; i < 16; i++ {
		nib := make([]byte, 64)
		if pos == 1 {
			nib[0] = 3
		}
		nib[pos] = byte(i)
		k := make([]byte, 32)
		for j := range k {
			k[j] = nib[2*j]<<4 | nib[2*j+1]
		}
		keys = append(keys, k)
	}
	return keys
}

// UniverseKeys returns the keys a history's indexes refer to.
func UniverseKeys(uni string, sub []int) [][]byte {
	var all [][]byte
	switch uni {
	case "head":
		all = shapeKeys(0)
	case "tail":
		all = shapeKeys(60)
	case "wideh":
		all = wideKeys(0)
	case "widem":
		all = wideKeys(1)
	case "widet":
		all = wideKeys(63)
	default:
		all = WKeys
	}
	if len(sub) == 0 {
		return all
	}
	var keys [][]byte
	for _, i := range sub {
		keys = append(keys, all[i])
	}
	return keys
}

// PickUniverse draws a universe and a sorted selection of n of its keys.
func PickUniverse(r *rand.Rand, n int) (string, []int) {
	switch r.Intn(8) {
	case 0, 1:
		return "w", nil
	case 2, 3:
		return "head", pickSub(r, n)
	case 4, 5:
		return "tail", pickSub(r, n)
	case 6:
		// fan-out universes: biased towards the high nibbles (the last children of a branch)
		sub := pickSub(r, n)
		for _, v := range []int{15, 14} {
			has := false
			for _, x := range sub {
				has = has || x == v
			}
			for i := len(sub) - 1; i >= 0 && !has; i-- {
				if sub[i] != 14 && sub[i] != 15 {
					sub[i], has = v, true
				}
			}
			sort.Ints(sub)
		}
		return []string{"wideh", "widem", "widet"}[r.Intn(3)], sub
	}
	return []string{"wideh", "widem", "widet"}[r.Intn(3)], pickSub(r, n)
}

// SubFor is a deterministic selection of n keys of a shape universe.
func SubFor(seed int64, n int) []int { return pickSub(rand.New(rand.NewSource(seed)), n) }

func pickSub(r *rand.Rand, n int) []int {
	if n > 16 {
		n = 16
	}
	sub := append([]int(nil), r.Perm(16)[:n]...)
	sort.Ints(sub)
	return sub
}

// WKeys is the fixed key universe: 32-byte keys sharing prefixes of many lengths.
var WKeys = func() [][]byte {
	mk := func(mod map[int]byte) []byte {
		nib := make([]byte, 64)
		for i, v := range mod {
			nib[i] = v
		}
		k := make([]byte, 32)
		for i := range k {
			k[i] = nib[2*i]<<4 | nib[2*i+1]
		}
		return k
	}
	keys := [][]byte{
		mk(nil), mk(map[int]byte{63: 1}), mk(map[int]byte{62: 1}), mk(map[int]byte{0: 1}), mk(map[int]byte{1: 1}),
		mk(map[int]byte{31: 5}), mk(map[int]byte{31: 5, 63: 1}), bytes.Repeat([]byte{0xfd}, 32),
		mk(map[int]byte{0: 1, 1: 2}), mk(map[int]byte{0: 1, 1: 2, 40: 7}),
	}
	sort.Slice(keys, func(i, j int) bool { return bytes.Compare(keys[i], keys[j]) < 0 })
	return keys
}()

// memKV is an in-memory storage.StorageAdapter that reports every write element.
type memKV struct {
	mu sync.Mutex
	m  map[string][]byte
	on func(puts map[string][]byte, dels [][]byte, kind string)
}

func (s *memKV) Get(k []byte) ([]byte, error) {
	s.mu.Lock()
	defer s.mu.Unlock()
	v, ok := s.m[string(k)]
	if !ok {
		return nil, wmpt.ErrKVNotFound
	}
	return append([]byte(nil), v...), nil
}
func (s *memKV) Put(k, v []byte) error {
	s.mu.Lock()
	s.m[string(k)] = append([]byte(nil), v...)
	s.mu.Unlock()
	if s.on != nil {
		s.on(map[string][]byte{string(k): v}, nil, "put")
	}
	return nil
}
func (s *memKV) Delete(k []byte) error {
	s.mu.Lock()
	delete(s.m, string(k))
	s.mu.Unlock()
	if s.on != nil {
		s.on(nil, [][]byte{k}, "delete")
	}
	return nil
}
func (s *memKV) Close()                    {}
func (s *memKV) NewBatch() storage.Batcher { return &memBatch{s: s, puts: map[string][]byte{}} }

type memBatch struct {
	mu   sync.Mutex
	s    *memKV
	puts map[string][]byte
	dels [][]byte
	ops  []string // order of operations inside the batch
}

func (b *memBatch) Put(k, v []byte) error {
	b.mu.Lock()
	defer b.mu.Unlock()
	b.puts[string(k)] = append([]byte(nil), v...)
	b.ops = append(b.ops, "p"+string(k))
	return nil
}
func (b *memBatch) Delete(k []byte) error {
	b.mu.Lock()
	defer b.mu.Unlock()
	b.dels = append(b.dels, append([]byte(nil), k...))
	b.ops = append(b.ops, "d"+string(k))
	return nil
}
func (b *memBatch) Commit(bool) error {
	b.mu.Lock()
	defer b.mu.Unlock()
	b.s.mu.Lock()
	// apply in issue order: a later delete of a key put earlier in the batch wins, and vice versa
	finalPuts := map[string][]byte{}
	finalDels := map[string]bool{}
	for _, o := range b.ops {
		k := o[1:]
		if o[0] == 'p' {
			finalPuts[k] = b.puts[k]
			delete(finalDels, k)
		} else {
			finalDels[k] = true
			delete(finalPuts, k)
		}
	}
	var dels [][]byte
	for k := range finalDels {
		delete(b.s.m, k)
		dels = append(dels, []byte(k))
	}
	for k, v := range finalPuts {
		b.s.m[k] = v
	}
	b.s.mu.Unlock()
	if b.s.on != nil {
		b.s.on(finalPuts, dels, "batch")
	}
	return nil
}

// NewMemKV returns an in-memory storage adapter reporting write elements to on.
func NewMemKV(on func(puts map[string][]byte, dels [][]byte, kind string)) storage.StorageAdapter {
	return &memKV{m: map[string][]byte{}, on: on}
}

// WStats collects coverage.
type WStats struct {
	Traces, Events, Panics, Commits, GCs, Owners, Rollbacks, Forks int
	Distinct                                                       map[string]bool
	Modes                                                          map[string]int
}

type wrun struct {
	w    *tr.Writer
	in   *tr.Interner
	st   *WStats
	tid  int
	db   *memKV
	t    *wmpt.WeightedMerkleTrie
	kidx map[string]int
	keys [][]byte
	sig  bytes.Buffer
	// last durably committed root
	durRoot   []byte
	durWeight uint64
	// scale: every weight handed to the trie is the history's (small) weight times scale, every weight read back is divided
	// by it (not a multiple: reported as -1).  Owner intervals are then multiples of scale, so the specification's small
	// numbers decide the owner of every real block; the real numbers exercise the full width of the weight arithmetic
	// and of its encodings.
	scale uint64
}

// sw scales an observed weight down (-1 if it is not a multiple of the scale).
func (r *wrun) sw(x uint64) int64 {
	if r.scale <= 1 {
		return int64(x)
	}
	if x%r.scale != 0 {
		return -1
	}
	return int64(x / r.scale)
}

func (r *wrun) emit(ev map[string]any) {
	ev["tid"] = r.tid
	r.w.Emit(ev)
	r.st.Events++
}

// onWrite turns one storage write element into a trace event.
func (r *wrun) onWrite(puts map[string][]byte, dels [][]byte, kind string) {
	pids, dids := []int{}, []int{}
	rows := []any{}
	keysOK := true
	ks := make([]string, 0, len(puts))
	for k := range puts {
		ks = append(ks, k)
	}
	sort.Strings(ks)
	for _, k := range ks {
		id := r.in.ID([]byte(k))
		pids = append(pids, id)
		n, err := bridge.ParseWNode(puts[k])
		needs := []int{}
		if err != nil || !n.SelfConsistent() || !bytes.Equal(n.ContentHash(), []byte(k)) {
			keysOK = false
		}
		if n != nil {
			for _, h := range n.Needs() {
				needs = append(needs, r.in.ID(h))
			}
		}
		rows = append(rows, []any{id, needs})
	}
	for _, k := range dels {
		dids = append(dids, r.in.ID(k))
	}
	sort.Ints(dids)
	r.emit(map[string]any{"op": "w", "kind": kind, "puts": pids, "dels": dids, "rows": rows, "keysOK": keysOK})
}

// owners observes the complete content of a trie through block proofs.  With scale S > 1 the list has one row per unit q of S
// blocks: the first, a middle and the last block of the unit must have the same owner, value and weight, and verify.
func (r *wrun) owners(t *wmpt.WeightedMerkleTrie) (list []any, total int64, ok bool) {
	ok = true
	S := r.scale
	if S == 0 {
		S = 1
	}
	res := Guard(func() string {
		total = r.sw(t.Weight())
		// all proofs are requested BEFORE the root hash is read: a prover must not depend on somebody having refreshed its
		// cached hashes (Root()) since the last update
		type got struct {
			q, b  uint64
			key   []byte
			proof []byte
			err   error
		}
		var gots []got
		for q := uint64(1); int64(q) <= total && q <= 64; q++ {
			blocks := []uint64{q}
			if S > 1 {
				blocks = []uint64{(q-1)*S + 1, (q-1)*S + 1 + (q*7919)%S, q * S}
			}
			for _, b := range blocks {
				key, proof, err := t.GetBlockProof(b)
				gots = append(gots, got{q, b, key, proof, err})
			}
		}
		root := t.Root()
		rows := map[uint64][]any{}
		done := map[uint64]bool{}
		for _, g := range gots {
			if done[g.q] {
				continue
			}
			if g.err != nil {
				rows[g.q], done[g.q] = []any{g.q, -1, "", 0, false, "err"}, true
				continue
			}
			idx, known := r.kidx[string(g.key)]
			if !known {
				idx = -2
			}
			val, wt := "", int64(0)
			if recs, perr := bridge.ParseProof(g.proof); perr == nil && len(recs) > 0 {
				if n, nerr := bridge.ParseWNode(recs[len(recs)-1]); nerr == nil && n.Kind == 'V' {
					val, wt = string(n.Value), r.sw(n.Weight)
				}
			}
			vt := wmpt.New(nil, nil)
			h, v, verr := vt.VerifyBlockProof(g.b, g.proof)
			verified := verr == nil && bytes.Equal(h, root) && string(v) == val
			cur := []any{g.q, idx, val, wt, verified, "ok"}
			row := rows[g.q]
			if row != nil && (row[1] != cur[1] || row[2] != cur[2] || row[3] != cur[3]) {
				rows[g.q], done[g.q] = []any{g.q, idx, val, wt, false, "split"}, true
				continue
			}
			if row == nil || !verified {
				rows[g.q] = cur
			}
		}
		for q := uint64(1); int64(q) <= total && q <= 64; q++ {
			list = append(list, rows[q])
		}
		return "ok"
	})
	if res != "ok" {
		ok = false
		r.st.Panics++
	}
	if list == nil {
		list = []any{}
	}
	return
}

// shape walks the stored trie below a root (records parsed by the bridge) and renders it as the term the specification's
// canonical form is compared with: ["V", value, weight] / ["S", [nibbles], kid] / ["B", weight, [[nibble, kid], ...]] /
// ["M"] (missing or unreadable).  Returns nil for tries of more than 40 nodes.
func (r *wrun) shape(root []byte) any {
	nodes := 0
	ints := func(b []byte) []any {
		out := make([]any, len(b))
		for i, c := range b {
			out[i] = int(c)
		}
		return out
	}
	var walk func(h []byte) (any, int64)
	walk = func(h []byte) (any, int64) {
		nodes++
		data, err := r.db.Get(h)
		if err != nil || nodes > 40 {
			return []any{"M"}, 0
		}
		n, err := bridge.ParseWNode(data)
		if err != nil {
			return []any{"M"}, 0
		}
		switch n.Kind {
		case 'V':
			return []any{"V", string(n.Value), r.sw(n.Weight)}, r.sw(n.Weight)
		case 'S':
			kid, w := walk(n.Child)
			return []any{"S", ints(n.Key), kid}, w
		case 'B':
			kids := []any{} // (never nil: a stored branch without children must reach the specification as such)
			total := int64(0)
			for i, k := range n.Kids {
				if k == nil {
					continue
				}
				var kid any
				var w int64
				if k.Embedded {
					var sub any
					sub, w = walk(k.ValueHash)
					kid = []any{"S", ints(k.Key), sub}
				} else {
					kid, w = walk(k.Hash)
				}
				total += w
				kids = append(kids, []any{i, kid})
			}
			return []any{"B", total, kids}, total
		}
		return []any{"M"}, 0
	}
	t, _ := walk(root)
	if nodes > 40 {
		return nil
	}
	return t
}

// reopen opens a second trie from the last durably committed (root, weight)
// alone; it never touches the live trie (reading Root() of a dirty trie is an
// operation of its own: "readroot").
func (r *wrun) reopen(tag string) {
	root := r.durRoot
	weight := r.durWeight
	t2 := wmpt.New(wmpt.NewHashNode(root, weight), r.db)
	if weight == 0 {
		t2 = wmpt.New(nil, r.db)
	}
	list, total, ok := r.owners(t2)
	ev := map[string]any{"op": "reopen", "after": tag, "root": r.in.ID(root), "total": total, "owners": list, "ok": ok,
		"rootOK": bytes.Equal(t2.Root(), root)}
	// the stored trie as a term (small tries, every fifth reopen): compared with the canonical term of the durable content
	if weight > 0 && (r.st.Events+r.tid)%5 == 0 {
		if sh := r.shape(root); sh != nil {
			ev["shape"] = sh
		}
	}
	r.emit(ev)
}

// LongPad is a distinguishable filler that makes a value 40..130 bytes long.
func LongPad(i int) string {
	return "~" + strings.Repeat(string(rune('p'+i%7)), 36+(i*13)%90) + fmt.Sprint(i)
}

// wval: the weight of a value is the length of its part before '#', so that
// weight is a function of the value while values can be made distinct per key.
func wval(v string) (uint64, []byte) {
	// an explicit weight: "<value>^<n>" is the value <value> with weight n (the same value under another weight)
	if i := strings.LastIndexByte(v, '^'); i >= 0 {
		if n, err := strconv.ParseUint(v[i+1:], 10, 64); err == nil {
			return n, []byte(v[:i])
		}
	}
	n := len(v)
	if i := bytes.IndexByte([]byte(v), '#'); i >= 0 {
		n = i
	}
	return uint64(n), []byte(v)
}

// RunWMPT executes one history.
func RunWMPT(w *tr.Writer, in *tr.Interner, st *WStats, tid int, h WHist) {
	w.NextTrace()
	st.Traces++
	r := &wrun{w: w, in: in, st: st, tid: tid, kidx: map[string]int{}}
	r.scale = []uint64{1, 1, 1000, 1 << 20, 1<<33 + 7, 1 << 40}[tid%6]
	if h.Scale != 0 {
		r.scale = h.Scale
	}
	r.keys = UniverseKeys(h.Uni, h.Sub)
	for i, k := range r.keys {
		r.kidx[string(k)] = i
	}
	r.db = &memKV{m: map[string][]byte{}}
	r.db.on = r.onWrite
	r.t = wmpt.New(nil, r.db)
	r.durRoot = bridge.EmptyState
	nibs := make([]any, len(r.keys))
	for i, k := range r.keys {
		row := make([]any, 0, 64)
		for _, b := range k {
			row = append(row, int(b>>4), int(b&15))
		}
		nibs[i] = row
	}
	sub := h.Sub
	if sub == nil {
		sub = []int{}
	}
	r.emit(map[string]any{"op": "reset", "nkeys": len(r.keys), "empty": in.ID(bridge.EmptyState), "gmode": h.Mode, "uni": h.Uni, "sub": sub, "scale": r.scale, "nibs": nibs})
	st.Modes[h.Mode]++
	var ckRoot []byte
	var ckWeight uint64
	for _, op := range h.Ops {
		r.sig.WriteString(op.Op[:2])
		ev := map[string]any{"op": op.Op, "k": op.K, "v": op.V, "level": op.Level}
		switch op.Op {
		case "update", "updel":
			wt, val := wval(op.V)
			if op.Op == "updel" {
				wt, val = 0, nil
			}
			ev["w"] = wt
			ev["v"] = string(val)
			ev["tok"] = op.V // the generator's token (value with its explicit weight), for replays
			ev["res"] = Guard(func() string {
				if err := r.t.Update(r.keys[op.K], val, wt*r.scale); err != nil {
					if err == wmpt.ErrNotFound {
						return "notfound"
					}
					return "err"
				}
				return "ok"
			})
			ev["weight"] = r.sw(r.t.Weight())
			r.emit(ev)
		case "delete":
			ev["res"] = Guard(func() string {
				ch, err := r.t.Delete(r.keys[op.K])
				ev["change"] = r.sw(ch)
				if err != nil {
					if err == wmpt.ErrNotFound {
						return "notfound"
					}
					return "err"
				}
				return "ok"
			})
			if _, ok := ev["change"]; !ok {
				ev["change"] = 0
			}
			ev["weight"] = r.sw(r.t.Weight())
			r.emit(ev)
		case "commit":
			r.emit(map[string]any{"op": "commitbegin", "level": op.Level})
			ev["op"] = "committed"
			ev["res"] = Guard(func() string {
				b, err := r.t.Commit(op.Level)
				if err != nil {
					return "err"
				}
				if err := b.Commit(true); err != nil {
					return "err"
				}
				return "ok"
			})
			st.Commits++
			// the committed root is read through Root() (the trie is clean after a commit)
			root := r.t.Root()
			ev["root"] = in.ID(root)
			ev["weight"] = r.sw(r.t.Weight())
			r.durRoot, r.durWeight = append([]byte(nil), root...), r.t.Weight()
			r.emit(ev)
			r.reopen("commit")
		case "gc":
			r.emit(map[string]any{"op": "gcbegin"})
			ev["op"] = "gcend"
			ev["res"] = Guard(func() string {
				if err := r.t.DeleteNodes(); err != nil {
					return "err"
				}
				return "ok"
			})
			st.GCs++
			r.emit(ev)
			r.reopen("gc")
		case "reload":
			root, weight := r.durRoot, r.durWeight
			if fk := st.Events + tid; fk%3 == 2 {
				// the other way to a new trie object over the same storage: a copy of the in-memory upper levels of the clean
				// trie with hash references below (CopyRoot), as a new block's trie is made from its predecessor's
				lvl := []int{0, 1, 2, 3, 64}[(fk/3)%5]
				src := r.t
				res := Guard(func() string { r.t = wmpt.New(src.CopyRoot(lvl), r.db); return "ok" })
				if res != "ok" {
					st.Panics++
				}
				st.Forks++
			} else if weight == 0 {
				r.t = wmpt.New(nil, r.db)
			} else {
				r.t = wmpt.New(wmpt.NewHashNode(root, weight), r.db)
			}
			ev["weight"] = r.sw(r.t.Weight())
			r.emit(ev)
		case "readroot":
			ev["res"] = Guard(func() string { ev["root"] = in.ID(r.t.Root()); return "ok" })
			if _, ok := ev["root"]; !ok {
				ev["root"] = -1
			}
			r.emit(ev)
		case "owners":
			list, total, ok := r.owners(r.t)
			st.Owners++
			// the independent root of the content just observed (bridge) against the root the trie reports
			var entries []bridge.WEntry
			seen := map[int]bool{}
			for _, x := range list {
				row := x.([]any)
				idx := row[1].(int)
				if idx >= 0 && !seen[idx] {
					seen[idx] = true
					entries = append(entries, bridge.WEntry{Key: r.keys[idx], Value: []byte(row[2].(string)), Weight: uint64(row[3].(int64)) * r.scale})
				}
			}
			wantRoot, wantTotal := bridge.WRoot(entries)
			ev["owners"], ev["total"], ev["ok"] = list, total, ok
			ev["rootOK"] = bytes.Equal(wantRoot, r.t.Root()) && total >= 0 && wantTotal == uint64(total)*r.scale
			// out-of-range blocks must not be answered with an owner
			_, _, e0 := r.t.GetBlockProof(r.t.Weight() + 1)
			ev["above"] = e0 != nil
			r.emit(ev)
		case "saveroot":
			ev["res"] = Guard(func() string {
				if op.Level != 1 { // level 1: the caller keeps (root, weight) itself and does not tell the trie
					r.t.SaveRoot()
				}
				return "ok"
			})
			ckRoot, ckWeight = append([]byte(nil), r.t.Root()...), r.t.Weight()
			ev["root"], ev["weight"] = in.ID(ckRoot), r.sw(ckWeight)
			r.emit(ev)
		case "rollback", "rollbacktrie":
			r.emit(map[string]any{"op": "rollbackbegin"})
			ev["op"] = "rolledback"
			ev["how"] = op.Op
			ev["res"] = Guard(func() string {
				if op.Op == "rollback" {
					r.t.Rollback()
				} else if ckWeight == 0 {
					r.t.RollbackTrie(nil)
				} else {
					r.t.RollbackTrie(wmpt.NewHashNode(ckRoot, ckWeight))
				}
				return "ok"
			})
			st.Rollbacks++
			ev["root"] = in.ID(r.t.Root())
			ev["weight"] = r.sw(r.t.Weight())
			r.durRoot, r.durWeight = append([]byte(nil), r.t.Root()...), r.t.Weight()
			r.emit(ev)
			r.reopen("rollback")
		default:
			panic("unknown wmpt op " + op.Op)
		}
		if ev["res"] == "panic" {
			st.Panics++
		}
	}
	st.Distinct[r.sig.String()] = true
}

// GenWMPT draws a random weighted-trie history.  Modes:
//
//	plain   values are unique per update, reads of the root / proofs only on a clean trie
//	shared  different keys may hold equal values
//	dirty   root hash / proofs are also read while uncommitted changes exist
//	again   keys get values back that they had before (delete and re-add, flip-flop)
//	all     everything
func GenWMPT(r *rand.Rand, mode string) WHist {
	h := WHist{Mode: mode}
	h.Uni, h.Sub = PickUniverse(r, len(WKeys))
	shared := mode == "shared" || mode == "all"
	dirtyReads := mode == "dirty" || mode == "all"
	again := mode == "again" || mode == "all"
	bases := []string{"a", "bb", "ccc"}
	nk := 2 + r.Intn(len(WKeys)-1)
	n := 6 + r.Intn(30)
	clean := true
	saved := false
	commitsSinceSave := 0
	gcs := 0 // effective DeleteNodes passes since the last effective commit (deletion is staged over two passes)
	gc := func() {
		h.Ops = append(h.Ops, WOp{Op: "gc"})
		if clean {
			gcs++
		}
	}
	uniq := 0
	lastVals := map[int][]string{}
	value := func(k int) string {
		b := bases[r.Intn(len(bases))]
		if shared {
			return b
		}
		if again && len(lastVals[k]) > 0 && r.Intn(5) == 0 {
			// the value the key had last, under another weight
			_, prev := wval(lastVals[k][len(lastVals[k])-1])
			// (never weight 0: a live key that owns no block is invisible to the block-proof observation)
			return fmt.Sprintf("%s^%d", prev, 1+r.Intn(5))
		}
		if again && len(lastVals[k]) > 0 && r.Intn(2) == 0 {
			return lastVals[k][r.Intn(len(lastVals[k]))]
		}
		uniq++
		v := fmt.Sprintf("%s#%d.%d", b, k, uniq)
		if again {
			v = fmt.Sprintf("%s#%d", b, k)
		} else if uniq%4 == 0 {
			// long values: everything beyond the first few dozen bytes must be bound by the hashes just the same
			v += LongPad(uniq)
		}
		lastVals[k] = append(lastVals[k], v)
		return v
	}
	for i := 0; i < n; i++ {
		x := r.Intn(100)
		switch {
		case x < 38:
			k := r.Intn(nk)
			h.Ops = append(h.Ops, WOp{Op: "update", K: k, V: value(k)})
			clean = false
		case x < 48:
			if r.Intn(2) == 0 {
				h.Ops = append(h.Ops, WOp{Op: "delete", K: r.Intn(nk)})
			} else {
				h.Ops = append(h.Ops, WOp{Op: "updel", K: r.Intn(nk)})
			}
			clean = false
		case x < 66:
			h.Ops = append(h.Ops, WOp{Op: "commit", Level: []int{0, 1, 2, 3, 64, 1}[r.Intn(6)]})
			if !clean {
				gcs = 0
			}
			clean = true
			commitsSinceSave++
			if r.Intn(3) > 0 {
				gc()
			}
		case x < 72:
			gc()
		case x < 78:
			if clean {
				h.Ops = append(h.Ops, WOp{Op: "reload"})
				saved = false // the checkpoint lives in the trie object that is replaced
			}
		case x < 84:
			if clean || dirtyReads {
				h.Ops = append(h.Ops, WOp{Op: "readroot"})
			}
		case x < 92:
			if clean || dirtyReads {
				h.Ops = append(h.Ops, WOp{Op: "owners"})
			}
		case x < 96:
			if clean {
				h.Ops = append(h.Ops, WOp{Op: "saveroot"})
				saved = true
				commitsSinceSave = 0
			}
		default:
			// the second pass after the commit purges what the commit superseded, i.e. the checkpoint
			if saved && clean && commitsSinceSave == 1 && gcs <= 1 {
				if r.Intn(2) == 0 {
					h.Ops = append(h.Ops, WOp{Op: "rollback"})
				} else {
					h.Ops = append(h.Ops, WOp{Op: "rollbacktrie"})
				}
				saved = false
			}
		}
	}
	h.Ops = append(h.Ops, WOp{Op: "commit", Level: r.Intn(3)}, WOp{Op: "gc"}, WOp{Op: "gc"}, WOp{Op: "owners"})
	return h
}

// GenWMPTReturn draws a "state-return" history: the trie comes back to a content X it had before - X was committed, or only
// observed (root hash or proofs read while the changes were uncommitted, which caches the hashes of a state that is never
// stored) - with 0..2 garbage-collection passes in between and 1..2 after.  Values are never shared between keys and never
// re-used except by the return itself.  Content-addressed garbage collection must not remove what a later commit brought back.
func GenWMPTReturn(r *rand.Rand) WHist {
	h := WHist{Mode: "return"}
	h.Uni, h.Sub = PickUniverse(r, 8)
	nk := 2 + r.Intn(5)
	uniq := 0
	bases := []string{"a", "bb", "ccc"}
	fresh := func(k int) string {
		uniq++
		return fmt.Sprintf("%s#%d.%d", bases[r.Intn(len(bases))], k, uniq)
	}
	cur := map[int]string{}
	set := func(k int, v string) {
		if v == "" {
			delete(cur, k)
			h.Ops = append(h.Ops, WOp{Op: "delete", K: k})
			return
		}
		cur[k] = v
		h.Ops = append(h.Ops, WOp{Op: "update", K: k, V: v})
	}
	change := func() {
		k := r.Intn(nk)
		if _, ok := cur[k]; ok && r.Intn(3) == 0 {
			set(k, "")
			return
		}
		set(k, fresh(k))
	}
	commit := func() {
		h.Ops = append(h.Ops, WOp{Op: "commit", Level: []int{0, 0, 1, 3, 64}[r.Intn(5)]})
	}
	gcs := func(n int) {
		for i := 0; i < n; i++ {
			h.Ops = append(h.Ops, WOp{Op: "gc"})
		}
	}
	// base
	if nb := r.Intn(4); nb > 0 {
		for i := 0; i < nb; i++ {
			set(r.Intn(nk), fresh(i))
		}
		if r.Intn(4) > 0 {
			commit()
			gcs(r.Intn(3))
		}
	}
	// -> X
	for i := 0; i < 1+r.Intn(2); i++ {
		change()
	}
	x := map[int]string{}
	for k, v := range cur {
		x[k] = v
	}
	switch r.Intn(3) {
	case 0:
		commit()
		gcs(r.Intn(3))
	case 1:
		h.Ops = append(h.Ops, WOp{Op: "readroot"})
	default:
		h.Ops = append(h.Ops, WOp{Op: "owners"})
	}
	// -> Y
	for i := 0; i < 1+r.Intn(3); i++ {
		change()
	}
	commit()
	gcs(r.Intn(3))
	// back to X
	var diff []int
	for k := 0; k < nk; k++ {
		if cur[k] != x[k] {
			diff = append(diff, k)
		}
	}
	r.Shuffle(len(diff), func(i, j int) { diff[i], diff[j] = diff[j], diff[i] })
	for _, k := range diff {
		set(k, x[k])
	}
	commit()
	gcs(1 + r.Intn(2))
	h.Ops = append(h.Ops, WOp{Op: "owners"})
	if r.Intn(2) == 0 {
		gcs(1)
		h.Ops = append(h.Ops, WOp{Op: "owners"})
	}
	return h
}

// GenWMPTRollback draws a checkpoint / change batch / single commit / optional gc / rollback scenario (C13).
func GenWMPTRollback(r *rand.Rand, mode string) WHist {
	h := WHist{Mode: "rb-" + mode}
	h.Uni, h.Sub = PickUniverse(r, 8)
	nk := 2 + r.Intn(6)
	uniq := 0
	val := func(k int, fresh bool) string {
		b := []string{"a", "bb", "ccc"}[r.Intn(3)]
		if mode == "shared" {
			return b
		}
		if fresh {
			uniq++
			return fmt.Sprintf("%s#%d.%d", b, k, uniq)
		}
		return fmt.Sprintf("%s#%d", b, k)
	}
	cur := map[int]string{}
	// checkpoint state
	for i := 0; i < 1+r.Intn(6); i++ {
		k := r.Intn(nk)
		cur[k] = val(k, mode == "plain")
		h.Ops = append(h.Ops, WOp{Op: "update", K: k, V: cur[k]})
	}
	h.Ops = append(h.Ops, WOp{Op: "commit", Level: []int{0, 1, 3, 64}[r.Intn(4)]})
	// the checkpoint has a history of its own: further commits that delete / change keys, each followed by 0..2
	// garbage-collection passes (two passes physically purge what a commit superseded; the commit that is rolled back
	// may bring such a node back and then it is a node that only this commit created)
	var gone []int
	for c := r.Intn(3); c > 0; c-- {
		if r.Intn(3) == 0 {
			// a transient key inside the batch, with the root hash read while it exists: hashes of nodes that are never stored
			k := r.Intn(nk)
			if _, ok := cur[k]; !ok {
				h.Ops = append(h.Ops, WOp{Op: "update", K: k, V: val(k, true)}, WOp{Op: "readroot"}, WOp{Op: "delete", K: k})
			}
		}
		for i := 0; i < 1+r.Intn(2); i++ {
			k := r.Intn(nk)
			if _, ok := cur[k]; ok && r.Intn(3) > 0 {
				delete(cur, k)
				gone = append(gone, k)
				h.Ops = append(h.Ops, WOp{Op: "delete", K: k})
			} else {
				cur[k] = val(k, true)
				h.Ops = append(h.Ops, WOp{Op: "update", K: k, V: cur[k]})
			}
		}
		h.Ops = append(h.Ops, WOp{Op: "commit", Level: []int{0, 1, 3, 64}[r.Intn(4)]})
		for g := r.Intn(3); g > 0; g-- {
			h.Ops = append(h.Ops, WOp{Op: "gc"})
		}
	}
	if r.Intn(2) == 0 {
		h.Ops = append(h.Ops, WOp{Op: "gc"})
	}
	marked := r.Intn(3) == 0 // the checkpoint is kept by the caller only (RollbackTrie)
	if marked {
		h.Ops = append(h.Ops, WOp{Op: "saveroot", Level: 1})
	} else {
		h.Ops = append(h.Ops, WOp{Op: "saveroot"})
	}
	// batch of subsequent changes; a third of the histories read the root hash or the proofs while the batch is uncommitted
	// (mid-batch or at its end): that caches hashes of states that are never stored
	observe := r.Intn(3) == 0
	nbatch := 1 + r.Intn(6)
	for i := 0; i < nbatch; i++ {
		if observe && i > 0 && r.Intn(3) == 0 {
			h.Ops = append(h.Ops, WOp{Op: []string{"readroot", "owners"}[r.Intn(2)]})
		}
		k := r.Intn(nk)
		if len(gone) > 0 && r.Intn(3) == 0 {
			// a key that was deleted before the checkpoint comes back (fresh value): the structure around it recurs
			k = gone[r.Intn(len(gone))]
			cur[k] = val(k, true)
			h.Ops = append(h.Ops, WOp{Op: "update", K: k, V: cur[k]})
			continue
		}
		switch x := r.Intn(10); {
		case x < 4:
			cur[k] = val(k, true)
			h.Ops = append(h.Ops, WOp{Op: "update", K: k, V: cur[k]})
		case x < 6 && mode != "plain": // unchanged re-write
			if v, ok := cur[k]; ok {
				h.Ops = append(h.Ops, WOp{Op: "update", K: k, V: v})
			}
		case x < 8 && mode != "plain": // delete and re-add identical
			if v, ok := cur[k]; ok {
				h.Ops = append(h.Ops, WOp{Op: "delete", K: k}, WOp{Op: "update", K: k, V: v})
			}
		default:
			delete(cur, k)
			h.Ops = append(h.Ops, WOp{Op: "delete", K: k})
		}
	}
	if observe && r.Intn(2) == 0 {
		h.Ops = append(h.Ops, WOp{Op: []string{"readroot", "owners"}[r.Intn(2)]})
	}
	h.Ops = append(h.Ops, WOp{Op: "commit", Level: []int{0, 1, 3, 64}[r.Intn(4)]})
	if r.Intn(2) == 0 {
		h.Ops = append(h.Ops, WOp{Op: "gc"})
	}
	if r.Intn(2) == 0 && !marked {
		h.Ops = append(h.Ops, WOp{Op: "rollback"})
	} else {
		h.Ops = append(h.Ops, WOp{Op: "rollbacktrie"})
	}
	h.Ops = append(h.Ops, WOp{Op: "owners"}, WOp{Op: "gc"}, WOp{Op: "gc"})
	return h
}

var _ = fmt.Sprintf
