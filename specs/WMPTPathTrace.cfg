SPECIFICATION TraceSpec
CONSTANTS
  NKeys = 0
  ReW = {}
  Vals = {}
  Wt = {}
  Depth = 0
  GenMode = FALSE
INVARIANT Report
CHECK_DEADLOCK FALSE
