package main

import (
	"math/rand"

	"verifharness/exec"
	"verifharness/tr"
)

func init() { components["conc"] = runConc }

func runConc(args []string) (map[string]any, error) {
	c := newCommon("conc")
	nmiss := c.fs.Int("nmissing", 0, "number of race-only runs with a missing node")
	c.fs.Parse(args)
	w, err := tr.New(*c.out, *c.shards)
	if err != nil {
		return nil, err
	}
	st := &exec.ConcStats{Distinct: map[string]bool{}}
	r := rand.New(rand.NewSource(*c.seed))
	tid := 0
	for i := 0; i < *c.n; i++ {
		tid++
		exec.RunConc(w, st, tid, r, false, i%5 == 4) // every fifth run: one writer on deep keys against one saver
	}
	// constant-read stress: two runs (more in big runs), each several thousand updates against six readers
	for i := 0; i < 2+*c.n/2000; i++ {
		tid++
		exec.RunConstStress(w, st, tid, r, 12000)
	}
	for i := 0; i < *nmiss; i++ {
		tid++
		exec.RunConc(w, st, tid, r, true, false)
	}
	if err := w.Close(); err != nil {
		return nil, err
	}
	return map[string]any{"traces": st.Traces, "events": st.Events, "ops": st.Ops, "panics": st.Panics,
		"distinct_shapes": len(st.Distinct), "samples": w.Samples}, nil
}
