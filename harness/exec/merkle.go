package exec

import (
	"fmt"
	"math/rand"

	"verifharness/tr"

	"github.com/0chain/common/core/util"
)

type mleaf string

func (m mleaf) GetHash() string      { return string(m) }
func (m mleaf) GetHashBytes() []byte { return util.HashStringToBytes(string(m)) }

// MStats collects coverage.
type MStats struct {
	Traces, Events, Panics, Paths int
	Distinct                      map[string]bool
}

// RunMerkle builds the tree for n leaves and records, for the listed indices,
// where each path node sits in the tree array and what the verifiers say.
func RunMerkle(w *tr.Writer, st *MStats, tid int, n int, indices []int, r *rand.Rand) {
	w.NextTrace()
	st.Traces++
	leaves := make([]util.Hashable, n)
	for i := range leaves {
		leaves[i] = mleaf(util.Hash(fmt.Sprintf("leaf-%d-of-%d", i, n)))
	}
	ev := map[string]any{"tid": tid, "op": "tree", "n": n}
	res := Guard(func() string {
		var mt util.MerkleTree
		mt.ComputeTree(leaves)
		tree := mt.GetTree()
		root := mt.GetRoot()
		ev["size"] = len(tree)
		ev["rootlast"] = root == tree[len(tree)-1]
		where := map[string][]int{}
		for i, h := range tree {
			where[h] = append(where[h], i)
		}
		// layout rows: level by level, parent = MHash(left, right-or-left)
		var layout []any
		off, size := 0, n
		if n == 1 {
			layout = append(layout, []any{1, 0, 0, tree[1] == util.MHash(tree[0], tree[0])})
		}
		for size > 1 {
			next := (size + 1) / 2
			for j := 0; j < next; j++ {
				l := off + 2*j
				rr := l + 1
				if 2*j+1 >= size {
					rr = l
				}
				p := off + size + j
				ok := p < len(tree) && tree[p] == util.MHash(tree[l], tree[rr])
				layout = append(layout, []any{p, l, rr, ok})
			}
			off += size
			size = next
		}
		ev["layout"] = layout
		// SetTree round trip
		var mt2 util.MerkleTree
		rtOK := mt2.SetTree(n, append([]string(nil), tree...)) == nil && mt2.GetRoot() == root
		var rows []any
		orig := map[int]*util.MTPath{}
		samePath := func(a, b *util.MTPath) bool {
			if a == nil || b == nil || len(a.Nodes) != len(b.Nodes) || a.LeafIndex != b.LeafIndex {
				return false
			}
			for k := range a.Nodes {
				if a.Nodes[k] != b.Nodes[k] {
					return false
				}
			}
			return true
		}
		for _, idx := range indices {
			path := mt.GetPathByIndex(idx)
			orig[idx] = path
			var pos []any
			for _, h := range path.Nodes {
				p := where[h]
				if p == nil {
					p = []int{}
				}
				pos = append(pos, p)
			}
			if pos == nil {
				pos = []any{}
			}
			byIndex := util.VerifyMerklePath(leaves[idx].GetHash(), path, root)
			p2 := mt.GetPath(leaves[idx])
			byLeaf := mt.VerifyPath(leaves[idx], p2) && p2.LeafIndex == idx
			same := len(p2.Nodes) == len(path.Nodes)
			for k := range p2.Nodes {
				same = same && k < len(path.Nodes) && p2.Nodes[k] == path.Nodes[k]
			}
			if rtOK {
				q := mt2.GetPathByIndex(idx)
				same = same && len(q.Nodes) == len(path.Nodes)
				for k := range q.Nodes {
					same = same && k < len(path.Nodes) && q.Nodes[k] == path.Nodes[k]
				}
				// the loaded tree answers lookups by leaf like the tree it was exported from
				same = same && samePath(mt2.GetPath(leaves[idx]), path)
			}
			// the same path must not verify for any other leaf
			foreign := false
			check := func(j int) {
				if j != idx && j >= 0 && j < n && util.VerifyMerklePath(leaves[j].GetHash(), path, root) {
					foreign = true
				}
			}
			if n <= 64 {
				for j := 0; j < n; j++ {
					check(j)
				}
			} else {
				check(idx - 1)
				check(idx + 1)
				check(idx ^ 1)
				for k := 0; k < 6; k++ {
					check(r.Intn(n))
				}
			}
			if util.VerifyMerklePath(util.Hash("not a leaf"), path, root) {
				foreign = true
			}
			rows = append(rows, []any{idx, pos, byIndex, byLeaf && same, foreign})
			st.Paths++
		}
		ev["rows"] = rows
		// export, then go on using the source object for another tree of the same size, then load the export: the export
		// is a value of its own (root and paths of the tree it was taken from), and two objects never share state
		exp := mt.GetTree()
		other := make([]util.Hashable, n)
		for i := range other {
			other[i] = mleaf(util.Hash(fmt.Sprintf("other-%d-of-%d", i, n)))
		}
		mt.ComputeTree(other)
		// ... the source object has by now served lookups by leaf for two different trees; loading the first export back into
		// it gives the first tree again: same root, same paths by index and by leaf
		lookedUp := len(indices) > 0 && mt.GetPath(other[indices[0]]) != nil
		backOK := mt.SetTree(n, append([]string(nil), exp...)) == nil && mt.GetRoot() == root
		for _, idx := range indices {
			if !backOK || !lookedUp {
				break
			}
			backOK = samePath(mt.GetPath(leaves[idx]), orig[idx]) && samePath(mt.GetPathByIndex(idx), orig[idx]) &&
				mt.VerifyPath(leaves[idx], mt.GetPath(leaves[idx]))
		}
		var mt3 util.MerkleTree
		reuseOK := mt3.SetTree(n, exp) == nil && mt3.GetRoot() == root
		if reuseOK && len(indices) > 0 {
			idx := indices[len(indices)-1]
			reuseOK = util.VerifyMerklePath(leaves[idx].GetHash(), mt3.GetPathByIndex(idx), root)
		}
		// a tree loaded from another tree's export is recomputed: the tree it was loaded from is not affected
		var first, second util.MerkleTree
		first.ComputeTree(leaves)
		if second.SetTree(n, first.GetTree()) == nil {
			second.ComputeTree(other)
			reuseOK = reuseOK && first.GetRoot() == root
		}
		ev["settree"] = rtOK && reuseOK && backOK
		return "ok"
	})
	ev["res"] = res
	if res != "ok" {
		st.Panics++
		for _, k := range []string{"size", "layout", "rows"} {
			if _, ok := ev[k]; !ok {
				ev[k] = []any{}
			}
		}
		if _, ok := ev["size"].(int); !ok {
			ev["size"] = 0
		}
		ev["rootlast"], ev["settree"] = false, false
	}
	w.Emit(ev)
	st.Events++
	st.Distinct[fmt.Sprint(n)] = true
}
