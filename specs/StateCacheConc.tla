--------------------------- MODULE StateCacheConc ---------------------------
(***************************************************************************)
(* Step-level model of StateCache.Get (lock-free) running concurrently     *)
(* with StateCache.commit (serialised by a mutex), one key.  One action    *)
(* per access to a shared map, i.e. per yield point of the verif hook:     *)
(*                                                                         *)
(*   reader:    G1 cache.Get(key)      G2 bvs.Get(queried block)           *)
(*              G3 hashCache.Get(cur)  G4 bvs.Get(cur)   G5 bvs.Add(memo)  *)
(*   committer: C0 lock   C1 hashCache.Get(B)   C2 cache.Get(key)          *)
(*              C3 bvs.Add(B, v)   C4 cache.Add(key, bvs)                  *)
(*              C5 hashCache.Add(B, prev) and unlock                       *)
(*                                                                         *)
(* Algo = "probe_then_link": the order of the code before the fix (probe   *)
(*        the entry of a block, then read its link);                       *)
(* Algo = "link_then_probe": read the link of a block first, then probe    *)
(*        its entry (commit publishes the link after the values).          *)
(*                                                                         *)
(* Property (C08): every completed lookup satisfies                        *)
(*        result = Miss \/ result = Truth(block)                           *)
(* where Truth is determined by the block tree alone, and after everything *)
(* finished a sequential lookup at every block still does (no poisoned     *)
(* memo entry), and finds the committed writes.                            *)
(***************************************************************************)
EXTENDS Naturals, Sequences, FiniteSets, TLC, Json

SetToSeq(X) == CHOOSE q \in [1..Cardinality(X) -> X] : \A i, j \in 1..Cardinality(X) : i # j => q[i] # q[j]

CONSTANTS Serialised,    \* TRUE: commit holds sc.lock from C0 to its return (as coded); FALSE: commits are not mutually exclusive
                         \* (design mutant "commit without the global lock", and the source of ADVERSARIAL schedules: replayed
                         \* on the real code they are infeasible exactly as long as the code serialises commits)
          Algo,
          Blocks,        \* sequence of block hashes forming a chain, oldest first
          Writes,        \* function: block -> value written to the key, or "" for none
          PreCommitted,  \* number of leading blocks already committed at the start
          Committers,    \* set of blocks committed concurrently
          Dup,           \* subset of Committers: blocks committed TWICE concurrently (two cache objects of one block hash, e.g. a
                         \* block executed by two goroutines); the second committer of block b is the process b'
          DupEarly,      \* design mutant: a duplicate commit returns at once while another commit of its block is in flight
          Readers        \* function: reader id -> queried block

Miss == "#miss"
None == ""

Idx(b) == CHOOSE i \in 1..Len(Blocks) : Blocks[i] = b
\* "genesis" is the (never committed) predecessor of the first block: no link, no entry
Prev(b) == IF b = "genesis" \/ Idx(b) = 1 THEN "genesis" ELSE Blocks[Idx(b) - 1]

RECURSIVE TruthAt(_)
TruthAt(i) == IF i = 0 THEN Miss ELSE IF Writes[Blocks[i]] # None THEN Writes[Blocks[i]] ELSE TruthAt(i - 1)
Truth(b) == TruthAt(Idx(b))

VARIABLES hasMap,   \* the key has a per-block map in sc.cache
          bvs,      \* the per-block map of the key: block -> value
          links,    \* hashCache: set of blocks whose link is published
          lock,     \* holder of sc.lock or None
          cown,     \* committer -> the per-key map it created at C2 because it saw none (<<>> = uses the shared one)
          cnew,     \* committer -> it created a map of its own
          cpc,      \* committer -> pc
          rpc,      \* reader -> pc
          rcur,     \* reader -> block currently examined
          rlink,    \* reader -> link value read (link_then_probe)
          rres,     \* reader -> result (None while running)
          sched     \* history of process ids (schedule), for replay

vars == <<hasMap, bvs, links, lock, cown, cnew, cpc, rpc, rcur, rlink, rres, sched>>

RIds == DOMAIN Readers
CIds == Committers \cup {b \o "'" : b \in Dup}                 \* committer processes
Blk(c) == IF c \in Committers THEN c ELSE SubSeq(c, 1, Len(c) - 1)   \* the block a committer process commits

Init ==
  /\ hasMap = (\E i \in 1..PreCommitted : Writes[Blocks[i]] # None)
  /\ bvs = [b \in {Blocks[i] : i \in {j \in 1..PreCommitted : Writes[Blocks[j]] # None}} |-> Writes[b]]
  /\ links = {Blocks[i] : i \in 1..PreCommitted}
  /\ lock = None
  /\ cown = [c \in CIds |-> [b \in {} |-> ""]]
  /\ cnew = [c \in CIds |-> FALSE]
  /\ cpc = [c \in CIds |-> "C0"]
  /\ rpc = [r \in RIds |-> "G1"]
  /\ rcur = [r \in RIds |-> Readers[r]]
  /\ rlink = [r \in RIds |-> FALSE]
  /\ rres = [r \in RIds |-> None]
  /\ sched = <<>>

Put(m, k, v) == [x \in (DOMAIN m) \cup {k} |-> IF x = k THEN v ELSE m[x]]

---------------------------------------------------------------------------
(* committer process c of block Blk(c) *)
InFlight(c) == \E d \in CIds \ {c} : Blk(d) = Blk(c) /\ cpc[d] \notin {"C0", "done"}
CStep(c) ==
  LET b == Blk(c) IN
  /\ sched' = Append(sched, c)
  /\ UNCHANGED <<rpc, rcur, rlink, rres>>
  /\ CASE cpc[c] = "C0" -> IF DupEarly /\ InFlight(c)
                           THEN /\ cpc' = [cpc EXCEPT ![c] = "done"]    \* mutant: "somebody else is committing this block"
                                /\ UNCHANGED <<hasMap, bvs, links, lock, cown, cnew>>
                           ELSE /\ Serialised => lock = None
                                /\ lock' = IF Serialised THEN c ELSE lock
                                /\ cpc' = [cpc EXCEPT ![c] = "C1"]
                                /\ UNCHANGED <<hasMap, bvs, links, cown, cnew>>
       [] cpc[c] = "C1" -> IF b \in links
                           THEN /\ lock' = IF Serialised THEN None ELSE lock
                                /\ cpc' = [cpc EXCEPT ![c] = "done"]   \* already committed
                                /\ UNCHANGED <<hasMap, bvs, links, cown, cnew>>
                           ELSE /\ cpc' = [cpc EXCEPT ![c] = IF Writes[b] = None THEN "C5" ELSE "C2"]
                                /\ UNCHANGED <<hasMap, bvs, links, lock, cown, cnew>>
       \* C2 cache.Get(key): use the key's map, or create one (published at C4)
       [] cpc[c] = "C2" -> /\ cnew' = [cnew EXCEPT ![c] = ~hasMap]
                           /\ cpc' = [cpc EXCEPT ![c] = "C3"]
                           /\ UNCHANGED <<hasMap, bvs, links, lock, cown>>
       [] cpc[c] = "C3" -> /\ IF cnew[c] THEN /\ cown' = [cown EXCEPT ![c] = Put(@, b, Writes[b])] /\ bvs' = bvs
                              ELSE /\ bvs' = Put(bvs, b, Writes[b]) /\ cown' = cown
                           /\ cpc' = [cpc EXCEPT ![c] = "C4"]
                           /\ UNCHANGED <<hasMap, links, lock, cnew>>
       \* C4 cache.Add(key, map): a map created at C2 REPLACES whatever the key has by now
       [] cpc[c] = "C4" -> /\ hasMap' = TRUE
                           /\ bvs' = IF cnew[c] THEN cown[c] ELSE bvs
                           /\ cpc' = [cpc EXCEPT ![c] = "C5"]
                           /\ UNCHANGED <<links, lock, cown, cnew>>
       \* publish the link, then return (the deferred unlock has no yield point of its own)
       [] cpc[c] = "C5" -> /\ links' = links \cup {b}
                           /\ lock' = IF Serialised THEN None ELSE lock
                           /\ cpc' = [cpc EXCEPT ![c] = "done"]
                           /\ UNCHANGED <<hasMap, bvs, cown, cnew>>

(* reader r.  The per-key map object seen at G1 is the one commits use (a   *)
(* commit that finds no map creates it at C2..C4; a reader that saw none    *)
(* returned Miss at G1).                                                    *)
Finish(r, v) == /\ rres' = [rres EXCEPT ![r] = v] /\ rpc' = [rpc EXCEPT ![r] = "done"]

RStepOld(r) ==
  CASE rpc[r] = "G1" -> IF hasMap THEN /\ rpc' = [rpc EXCEPT ![r] = "G2"] /\ UNCHANGED <<rres, rcur, rlink, bvs>>
                        ELSE Finish(r, Miss) /\ UNCHANGED <<rcur, rlink, bvs>>
    [] rpc[r] = "G2" -> IF rcur[r] \in DOMAIN bvs THEN Finish(r, bvs[rcur[r]]) /\ UNCHANGED <<rcur, rlink, bvs>>
                        ELSE /\ rpc' = [rpc EXCEPT ![r] = "G3"] /\ UNCHANGED <<rres, rcur, rlink, bvs>>
    [] rpc[r] = "G3" -> IF rcur[r] \in links
                        THEN /\ rcur' = [rcur EXCEPT ![r] = Prev(rcur[r])]
                             /\ rpc' = [rpc EXCEPT ![r] = "G4"] /\ UNCHANGED <<rres, rlink, bvs>>
                        ELSE Finish(r, Miss) /\ UNCHANGED <<rcur, rlink, bvs>>
    [] rpc[r] = "G4" -> IF rcur[r] \in DOMAIN bvs
                        THEN /\ rpc' = [rpc EXCEPT ![r] = "G5"] /\ rres' = [rres EXCEPT ![r] = "pending:" \o bvs[rcur[r]]]
                             /\ UNCHANGED <<rcur, rlink, bvs>>
                        ELSE /\ rpc' = [rpc EXCEPT ![r] = "G3"] /\ UNCHANGED <<rres, rcur, rlink, bvs>>

\* link_then_probe: L (read link of cur) then P (probe cur); found -> M (memo) if cur # queried
RStepNew(r) ==
  CASE rpc[r] = "G1" -> IF hasMap THEN /\ rpc' = [rpc EXCEPT ![r] = "L"] /\ UNCHANGED <<rres, rcur, rlink, bvs>>
                        ELSE Finish(r, Miss) /\ UNCHANGED <<rcur, rlink, bvs>>
    [] rpc[r] = "L"  -> /\ rlink' = [rlink EXCEPT ![r] = rcur[r] \in links]
                        /\ rpc' = [rpc EXCEPT ![r] = "P"] /\ UNCHANGED <<rres, rcur, bvs>>
    [] rpc[r] = "P"  -> IF rcur[r] \in DOMAIN bvs
                        THEN IF rcur[r] = Readers[r]
                             THEN Finish(r, bvs[rcur[r]]) /\ UNCHANGED <<rcur, rlink, bvs>>
                             ELSE /\ rpc' = [rpc EXCEPT ![r] = "M"]
                                  /\ rres' = [rres EXCEPT ![r] = "pending:" \o bvs[rcur[r]]]
                                  /\ UNCHANGED <<rcur, rlink, bvs>>
                        ELSE IF rlink[r]
                             THEN /\ rcur' = [rcur EXCEPT ![r] = Prev(rcur[r])]
                                  /\ rpc' = [rpc EXCEPT ![r] = "L"] /\ UNCHANGED <<rres, rlink, bvs>>
                             ELSE Finish(r, Miss) /\ UNCHANGED <<rcur, rlink, bvs>>
    [] rpc[r] = "M"  -> LET v == SubSeq(rres[r], 9, Len(rres[r])) IN
                        /\ bvs' = Put(bvs, Readers[r], v)
                        /\ Finish(r, v) /\ UNCHANGED <<rcur, rlink>>

RStepOldFull(r) ==
  \* same as RStepOld but with the value captured at G4 (held in rres as "pending:<v>")
  IF rpc[r] = "G5"
  THEN LET v == SubSeq(rres[r], 9, Len(rres[r])) IN
       /\ bvs' = Put(bvs, Readers[r], v) /\ Finish(r, v) /\ UNCHANGED <<rcur, rlink>>
  ELSE RStepOld(r)

RStep(r) ==
  /\ rpc[r] # "done"
  /\ sched' = Append(sched, r)
  /\ UNCHANGED <<hasMap, links, lock, cown, cnew, cpc>>
  /\ IF Algo = "link_then_probe" THEN RStepNew(r) ELSE RStepOldFull(r)

Next == (\E c \in CIds : cpc[c] # "done" /\ CStep(c)) \/ (\E r \in RIds : RStep(r))

Spec == Init /\ [][Next]_vars

---------------------------------------------------------------------------
Done(r) == rpc[r] = "done"
AllDone == (\A r \in RIds : Done(r)) /\ (\A c \in CIds : cpc[c] = "done")

\* C08: a completed lookup either misses or returns the value the block tree determines
HitIsTruth == \A r \in RIds : Done(r) => (rres[r] = Miss \/ rres[r] = Truth(Readers[r]))

\* what a sequential lookup at block b returns in the current shared state (link_then_probe order
\* and probe_then_link order coincide sequentially)
RECURSIVE SeqGet(_, _)
SeqGet(b, fuel) ==
  IF ~hasMap \/ fuel = 0 THEN Miss
  ELSE IF b \in DOMAIN bvs THEN bvs[b]
  ELSE IF b \in links THEN SeqGet(Prev(b), fuel - 1) ELSE Miss

\* no poisoned entries are left behind: sequential lookups afterwards are still right ...
NoPoison == AllDone => \A i \in 1..Len(Blocks) : LET v == SeqGet(Blocks[i], Len(Blocks) + 1) IN v = Miss \/ v = Truth(Blocks[i])
\* ... and the committed writes are found at their block once every block below is committed
Found == AllDone =>
   \A c \in Committers : (Writes[c] # None /\ \A i \in 1..Idx(c) : Blocks[i] \in links) => SeqGet(c, Len(Blocks) + 1) = Writes[c]

\* C08, "once a commit has returned the block's writes are found by lookups at that block": in EVERY state, for every
\* commit call that has returned - also the second of two concurrent commits of one block, which waits for the first
ReturnedFound == Serialised =>
   \A c \in CIds : (cpc[c] = "done" /\ Writes[Blk(c)] # None) => SeqGet(Blk(c), Len(Blocks) + 1) = Writes[Blk(c)]

View == <<hasMap, bvs, links, lock, cown, cnew, cpc, rpc, rcur, rlink, rres>>

\* emission of complete schedules for replay (used with a VIEW-less configuration)
Emit == ~AllDone \/ PrintT(<<"VERIF_HIST", ToJson([blocks |-> Blocks, writes |-> [i \in 1..Len(Blocks) |-> Writes[Blocks[i]]],
                                                  pre |-> PreCommitted, committers |-> SetToSeq(CIds),
                                                  readers |-> [i \in 1..Len(SetToSeq(RIds)) |->
                                                                 <<SetToSeq(RIds)[i], Readers[SetToSeq(RIds)[i]]>>],
                                                  adv |-> ~Serialised, sched |-> sched])>>)
=============================================================================
