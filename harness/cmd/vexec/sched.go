//go:build verif

package main

import (
	"bufio"
	"bytes"
	"encoding/json"
	"os"

	"verifharness/exec"
	"verifharness/tr"
)

func init() { components["sched"] = runSched }

func runSched(args []string) (map[string]any, error) {
	c := newCommon("sched")
	c.fs.Parse(args)
	w, err := tr.New(*c.out, *c.shards)
	if err != nil {
		return nil, err
	}
	n, diverged := 0, 0
	distinct := map[string]bool{}
	if *c.hist != "" {
		f, err := os.Open(*c.hist)
		if err != nil {
			return nil, err
		}
		sc := bufio.NewScanner(f)
		sc.Buffer(make([]byte, 1<<20), 1<<26)
		for sc.Scan() {
			line := bytes.TrimSpace(sc.Bytes())
			if len(line) == 0 {
				continue
			}
			var s exec.Sched
			if err := json.Unmarshal(line, &s); err != nil {
				return nil, err
			}
			n++
			w.NextTrace()
			if err := exec.RunSched(w, n, s); err != nil {
				return nil, err
			}
			distinct[string(line)] = true
		}
		f.Close()
	}
	if err := w.Close(); err != nil {
		return nil, err
	}
	return map[string]any{"traces": n, "events": n, "schedules": n, "distinct_schedules": len(distinct), "diverged": diverged, "samples": w.Samples}, nil
}
