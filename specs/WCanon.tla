------------------------------- MODULE WCanon -------------------------------
(***************************************************************************)
(* Terms of the weighted trie and the CANONICAL term of a content: the     *)
(* shape the trie must have for a given live (key, value, weight) set,     *)
(* whatever the history (C09).  Shared by WMPTAlg.tla (the insert / delete *)
(* algorithm refines it) and WMPTTrace.tla (the stored trie of every       *)
(* durable commit of the real code is compared with it).                   *)
(*   [t |-> "N"]                      empty                                *)
(*   [t |-> "V", v, w]                value with its weight                *)
(*   [t |-> "S", key, kid]            short node: nibbles, child           *)
(*   [t |-> "B", w, kids]             branch: weight = sum below, kids: function from the occupied nibbles *)
(* Keys are nibble sequences of one fixed length.                          *)
(***************************************************************************)
EXTENDS Integers, Sequences, FiniteSets

WNil == [t |-> "N"]
VN(v, w) == [t |-> "V", v |-> v, w |-> w]
SN(key, kid) == [t |-> "S", key |-> key, kid |-> kid]
BN(w, kids) == [t |-> "B", w |-> w, kids |-> kids]

WDrop(s, n) == SubSeq(s, n + 1, Len(s))
WTake(s, n) == SubSeq(s, 1, n)

RECURSIVE WSumW(_)
WSumW(S) == IF S = {} THEN 0 ELSE LET e == CHOOSE x \in S : TRUE IN e[3] + WSumW(S \ {e})

\* length of the longest common prefix of a non-empty set of sequences (pairwise against one member)
RECURSIVE WLcp2(_, _, _)
WLcp2(a, b, i) == IF i > Len(a) \/ i > Len(b) \/ a[i] # b[i] THEN i - 1 ELSE WLcp2(a, b, i + 1)
WLcpLen(S) ==
  LET p == CHOOSE x \in S : TRUE
      ls == {WLcp2(p, q, 1) : q \in S}
  IN  CHOOSE m \in ls : \A x \in ls : m <= x

RECURSIVE WCanonAt(_)
\* S: non-empty set of <<remaining key, value, weight>>
WCanonAt(S) ==
  LET Branch(T) == BN(WSumW(T), [c \in {e[1][1] : e \in T} |->
                                   WCanonAt({<<WDrop(e[1], 1), e[2], e[3]>> : e \in {x \in T : x[1][1] = c}})])
  IN  IF Cardinality(S) = 1
      THEN LET e == CHOOSE x \in S : TRUE
           IN  IF e[1] = <<>> THEN VN(e[2], e[3]) ELSE SN(e[1], VN(e[2], e[3]))
      ELSE LET n == WLcpLen({e[1] : e \in S})
           IN  IF n > 0
               THEN SN(WTake((CHOOSE x \in S : TRUE)[1], n), Branch({<<WDrop(e[1], n), e[2], e[3]>> : e \in S}))
               ELSE Branch(S)

\* canonical term of a set of <<key nibbles, value, weight>>
WCanonOf(S) == IF S = {} THEN WNil ELSE WCanonAt(S)
=============================================================================
