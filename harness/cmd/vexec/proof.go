package main

import (
	"bufio"
	"bytes"
	"encoding/json"
	"math/rand"
	"os"

	"verifharness/exec"
	"verifharness/tr"
)

func init() { components["proof"] = runProof }

func runProof(args []string) (map[string]any, error) {
	c := newCommon("proof")
	c.fs.Parse(args)
	w, err := tr.New(*c.out, *c.shards)
	if err != nil {
		return nil, err
	}
	st := &exec.PStats{Distinct: map[string]bool{}}
	tid, nTLC := 0, 0
	if *c.hist != "" {
		f, err := os.Open(*c.hist)
		if err != nil {
			return nil, err
		}
		sc := bufio.NewScanner(f)
		sc.Buffer(make([]byte, 1<<20), 1<<26)
		for sc.Scan() {
			line := bytes.TrimSpace(sc.Bytes())
			if len(line) == 0 {
				continue
			}
			var p exec.PPlan
			if err := json.Unmarshal(line, &p); err != nil {
				return nil, err
			}
			tid++
			nTLC++
			exec.RunProofPlan(w, st, tid, p)
		}
		f.Close()
	}
	r := rand.New(rand.NewSource(*c.seed))
	for i := 0; i < *c.n; i++ {
		exec.RunProofRandom(w, st, &tid, r)
	}
	if err := w.Close(); err != nil {
		return nil, err
	}
	return map[string]any{"traces": st.Traces, "events": st.Events, "tlc_histories": nTLC, "go_histories": *c.n, "panics": st.Panics,
		"rejected": st.Rejected, "verified_to_trusted_root": st.Honest, "verified_to_other_root": st.OtherRoot,
		"model_forged_plans": st.ModelForged, "distinct_outcome_classes": len(st.Distinct), "samples": w.Samples}, nil
}
