package main

import (
	"bufio"
	"bytes"
	"encoding/json"
	"math/rand"
	"os"

	"verifharness/exec"
	"verifharness/tr"
)

func init() { components["statecache"] = runStateCache }

func runStateCache(args []string) (map[string]any, error) {
	c := newCommon("statecache")
	nlong := c.fs.Int("nlong", 0, "number of long-chain (capacity) histories")
	c.fs.Parse(args)
	w, err := tr.New(*c.out, *c.shards)
	if err != nil {
		return nil, err
	}
	st := &exec.SCStats{Distinct: map[string]bool{}}
	tid := 0
	nTLC := 0
	if *c.hist != "" {
		f, err := os.Open(*c.hist)
		if err != nil {
			return nil, err
		}
		sc := bufio.NewScanner(f)
		sc.Buffer(make([]byte, 1<<20), 1<<26)
		vts := []string{"mut", "leaf", "full", "fullnv", "ext"}
		for sc.Scan() {
			line := bytes.TrimSpace(sc.Bytes())
			if len(line) == 0 {
				continue
			}
			var h exec.SCHist
			if err := json.Unmarshal(line, &h); err != nil {
				return nil, err
			}
			if h.ValType == "" {
				h.ValType = vts[nTLC%len(vts)]
			}
			tid++
			nTLC++
			exec.RunSCHistory(w, st, tid, h)
		}
		f.Close()
	}
	r := rand.New(rand.NewSource(*c.seed))
	for i := 0; i < *c.n; i++ {
		tid++
		exec.RunSCHistory(w, st, tid, exec.GenSCHistory(r, false))
	}
	// structured family: every commit order of a four-block tree with every write/removal assignment of one key
	norders := 0
	if *c.n > 0 {
		for _, h := range exec.GenSCCommitOrders() {
			tid++
			norders++
			exec.RunSCHistory(w, st, tid, h)
		}
	}
	for i := 0; i < *nlong; i++ {
		tid++
		if i == 1 {
			exec.RunSCHistory(w, st, tid, exec.GenSCDeep(r))
		} else if i%3 == 0 {
			exec.RunSCHistory(w, st, tid, exec.GenSCCapacity(r))
		} else {
			exec.RunSCHistory(w, st, tid, exec.GenSCHistory(r, true))
		}
	}
	if err := w.Close(); err != nil {
		return nil, err
	}
	return map[string]any{"traces": st.Traces, "events": st.Events, "tlc_histories": nTLC, "go_histories": *c.n + *nlong, "commit_order_histories": norders,
		"hits": st.Hits, "misses": st.Misses, "panics": st.Panics, "distinct_signatures": len(st.Distinct), "samples": w.Samples}, nil
}
