---------------------------- MODULE CurrencyTrace ----------------------------
(* Trace validation of every exported helper of package currency (C18).        *)
EXTENDS Currency, Json, IOUtils
Trace == ndJsonDeserialize(IOEnv.TRACE)
VARIABLES l, bad, nbad, ntr
tvars == <<x, y, l, bad, nbad, ntr>>
MaxBad == 40
\* deviations are kept per class (operation, failed checks, deviation flags): a flood of one class never hides another
KeepBad(bd, op, fl, dv) == Cardinality({b \in bd : b[3] = op /\ b[4] = fl /\ b[5] = dv}) < 6 /\ Cardinality(bd) < 40 * MaxBad
Flag(cond, name) == IF cond THEN {} ELSE {name}

Same(e, r) == e.res = r.res /\ (r.res = "err" \/ e.out = r.out)

Judge(e) ==
  CASE e.op = "AddCoin"   -> Same(e, AddCoin(e.a, e.b))
    [] e.op = "MinusCoin" -> Same(e, MinusCoin(e.a, e.b))
    [] e.op = "MultCoin"  -> Same(e, MultCoin(e.a, e.b))
    [] e.op = "Min"       -> Same(e, MinCoin(e.a, e.b))
    [] e.op = "AddInt64"  -> Same(e, AddInt64(e.a, e.x))
    [] e.op = "MinusInt64" -> Same(e, MinusInt64(e.a, e.x))
    [] e.op = "Int64ToCoin" -> Same(e, Int64ToCoin(e.x))
    [] e.op = "DistributeCoin" -> DistributeOK(e.a, e.x, e)
    [] e.op = "Int64"     -> Same(e, CoinInt64(e.a)) /\ (e.res = "err" \/ ~e.outneg)
    \* uint64 -> float64 never fails; judged for: no panic, exact below 2^53, integer-valued and non-negative
    [] e.op = "Float64"   -> e.res = "ok" /\ ~e.fout.neg /\ ~e.fout.nan /\ ~e.fout.inf /\ ~e.fout.frac
                             /\ (LeqL(e.a, Two53) => e.fout.int = e.a)
    [] e.op = "Float64ToCoin" -> Same(e, Float64ToCoin(e.f))
    [] e.op = "MultFloat64" -> Same(e, MultFloat64(e.f, e.p))
    [] e.op = "ParseZCN"  -> ParseZCNOK(e.d, e)
    \* format then parse returns the original amount for amounts of at most 15 significant digits
    [] e.op = "RoundTrip" -> IF LeqL(e.a, MaxI64) /\ e.sig <= 15 THEN e.res = "ok" /\ e.out = e.a
                             ELSE e.res = "err" \/ e.out = e.a \/ e.sig > 15
    [] OTHER -> FALSE

TraceInit == x = 0 /\ y = 0 /\ l = 1 /\ bad = {} /\ nbad = 0 /\ ntr = 0
TraceNext ==
  /\ l <= Len(Trace)
  /\ LET e == Trace[l]
         f == Flag(e.res # "panic", "panic") \cup Flag(e.res = "panic" \/ Judge(e), "inexact")
     IN  /\ UNCHANGED <<x, y>> /\ l' = l + 1 /\ ntr' = ntr + 1
         /\ nbad' = IF f = {} THEN nbad ELSE nbad + 1
         /\ bad' = IF f = {} \/ ~KeepBad(bad, e.op, f, {}) THEN bad ELSE bad \cup {<<e.tid, l, e.op, f, {}>>}
TraceSpec == TraceInit /\ [][TraceNext]_tvars
Report == l <= Len(Trace) \/ PrintT(<<"VERIF_RESULT", l - 1, ntr, nbad, bad>>)
=============================================================================
