----------------------------- MODULE MPTSyncTrace -----------------------------
(***************************************************************************)
(* Trace validation of missing-node detection and repair (C17) against the *)
(* oracle operators of MPTSync.tla.  Nodes are named by position.          *)
(***************************************************************************)
EXTENDS MPTSync, IOUtils

Trace == ndJsonDeserialize(IOEnv.TRACE)

VARIABLES l, bad, nbad, ntr,
          tt, fr     \* the canonical term of the plan's content and its frontier, computed once per plan
tvars == <<content, absent, phase, l, bad, nbad, ntr, tt, fr>>

MaxBad == 40
\* deviations are kept per class (operation, failed checks, deviation flags): a flood of one class never hides another
KeepBad(bd, op, fl, dv) == Cardinality({b \in bd : b[3] = op /\ b[4] = fl /\ b[5] = dv}) < 6 /\ Cardinality(bd) < 40 * MaxBad
ToSet(s) == {s[i] : i \in DOMAIN s}
Flag(cond, name) == IF cond THEN {} ELSE {name}
FromItems(items) ==
  LET S == ToSet(items) IN [p \in {it[1] : it \in S} |-> (CHOOSE it \in S : it[1] = p)[2]]

T == tt
Fr == fr

ExpectGet(g) ==
  LET x == WalkAbs(T, g[1], absent) IN
  IF x = NotFound THEN g[2] \notin {"ok", "notpresent", "panic"}
  ELSE IF x = NoVal THEN g[2] = "notpresent"
  ELSE g[2] = "ok" /\ g[3] = x

EventFlags(e) ==
  CASE e.op = "syncinit" ->
         LET c == FromItems(e.init) IN
         Flag(ToSet(e.positions) = Positions(Canon(c)), "shape")
         \cup Flag(ToSet(e.absent) \subseteq Positions(Canon(c)) \ {<<>>}, "plan")
    [] e.op = "hasmissing" -> Flag(e.res = (IF Fr = {} THEN "false" ELSE "true"), "hasmissing")
    [] e.op = "allmissing" -> Flag(e.res # "panic" /\ ToSet(e.keys) = Fr /\ e.unknown = 0, "allmissing")
    [] e.op = "missingkeys" -> Flag(e.res = "ok" /\ ToSet(e.keys) = Fr /\ e.unknown = 0, "missingkeys")
    [] e.op = "lookups" -> Flag(\A g \in ToSet(e.gets) : ExpectGet(g), "lookup")
    [] e.op = "repair" ->
         Flag(e.res = "ok", "repairres")
         \cup Flag(e.rootsame, "repairroot")
         \cup Flag(e.ires = "ok" /\ ToSet(e.items) = Pairs(content) /\ Len(e.items) = Cardinality(DOMAIN content)
                   /\ e.ires2 = "ok" /\ ToSet(e.items2) = Pairs(content) /\ e.hasmissing = "false", "repaircontent")
         \cup Flag(e.donorOK, "donorchanged")
         \* what the repaired trie then saves arrives under the hash of its own content (C14, nodes of foreign origin)
         \cup Flag(e.savedOK, "savedkeys")
         \cup Flag(e.keysOK, "repairkeys")
    [] OTHER -> {"unknown-op"}

TraceInit == /\ content = EmptyContent /\ absent = {} /\ phase = "full" /\ l = 1 /\ bad = {} /\ nbad = 0 /\ ntr = 0
             /\ tt = Canon(EmptyContent) /\ fr = {}

TraceNext ==
  /\ l <= Len(Trace)
  /\ LET e == Trace[l]
         c2 == IF e.op = "syncinit" THEN FromItems(e.init) ELSE content
         a2 == IF e.op = "syncinit" THEN ToSet(e.absent) ELSE absent
     IN  /\ content' = c2 /\ absent' = a2 /\ phase' = phase
         /\ tt' = IF e.op = "syncinit" THEN Canon(c2) ELSE tt
         /\ fr' = IF e.op = "syncinit" THEN Frontier(Canon(c2), a2) ELSE fr
         /\ l' = l + 1
         /\ ntr' = IF e.op = "syncinit" THEN ntr + 1 ELSE ntr
         /\ LET f == IF e.op = "syncinit" THEN EventFlags(e)
                     ELSE EventFlags(e)
            IN  /\ nbad' = IF f = {} THEN nbad ELSE nbad + 1
                /\ bad' = IF f = {} \/ ~KeepBad(bad, e.op, f, IF e.op = "repair" /\ ~e.samever THEN {"RepairOtherVersion"} ELSE {}) THEN bad
                          ELSE bad \cup {<<e.tid, l, e.op, f, IF e.op = "repair" /\ ~e.samever THEN {"RepairOtherVersion"} ELSE {}>>}

TraceSpec == TraceInit /\ [][TraceNext]_tvars
Report == l <= Len(Trace) \/ PrintT(<<"VERIF_RESULT", l - 1, ntr, nbad, bad>>)
=============================================================================
