----------------------------- MODULE LogRingTrace -----------------------------
(* Trace validation of the in-memory log buffer against LogRing.tla (C20).     *)
EXTENDS LogRing, IOUtils
Trace == ndJsonDeserialize(IOEnv.TRACE)
\* rcap: the capacity the code reports (logging.BufferSize); the property speaks of "its capacity", whatever it is
VARIABLES l, bad, nbad, ntr, derived, rcap
tvars == <<total, nlog, hist, l, bad, nbad, ntr, derived, rcap>>
MaxBad == 40
\* deviations are kept per class (operation, failed checks, deviation flags): a flood of one class never hides another
KeepBad(bd, op, fl, dv) == Cardinality({b \in bd : b[3] = op /\ b[4] = fl /\ b[5] = dv}) < 6 /\ Cardinality(bd) < 40 * MaxBad
ToSet(s) == {s[i] : i \in DOMAIN s}
Flag(cond, name) == IF cond THEN {} ELSE {name}

\* concurrent run: counts[g] entries "g.s" (s = 1..counts[g]) written by goroutine g (0-based in the trace).
\* Any linearizable ring yields: no duplicates, min(total, Cap) entries, per goroutine newest first and a
\* suffix of what that goroutine wrote.
ConcOK(e) ==
  LET S == ToSet(e.snap)
      tot == LET RECURSIVE Sum(_) Sum(i) == IF i > Len(e.counts) THEN 0 ELSE e.counts[i] + Sum(i + 1) IN Sum(1)
      of(g) == {x[2] : x \in {y \in S : y[1] = g}}
  IN  /\ e.ok /\ e.res = "ok"
      /\ Cardinality(S) = Len(e.snap)
      /\ Len(e.snap) = (IF tot < e.cap THEN tot ELSE e.cap)
      /\ \A g \in 0..(Len(e.counts) - 1) :
            /\ \A s \in of(g) : s >= 1 /\ s <= e.counts[g + 1] /\ (s < e.counts[g + 1] => (s + 1) \in of(g))
      /\ \A i, j \in 1..Len(e.snap) : (i < j /\ e.snap[i][1] = e.snap[j][1]) => e.snap[i][2] > e.snap[j][2]

Step(e) ==
  CASE e.op = "reset" -> [total |-> 0, nlog |-> 1, derived |-> FALSE, f |-> {}]
    [] e.op = "derive" -> [total |-> total, nlog |-> nlog + 1, derived |-> TRUE, f |-> Flag(e.res = "ok", "panic")]
    [] e.op = "write" -> [total |-> total + e.n, nlog |-> nlog, derived |-> derived,
                          f |-> Flag(e.res = "ok", "panic") \cup Flag(e.first = total + 1 /\ e.last = total + e.n, "harness")]
    [] e.op = "snapshot" -> [total |-> total, nlog |-> nlog, derived |-> derived,
                             f |-> Flag(e.res = "ok" /\ e.ok, "panic") \cup Flag(e.ids = SnapshotC(total, rcap), "snapshot")
                                   \* the second reader of the buffer (WriteLogs) shows the same entries with their own fields
                                   \cup Flag(~("wl" \in DOMAIN e) \/ e.wl # "differs", "writelogs")
                                   \cup Flag(~("wl" \in DOMAIN e) \/ e.wl # "format", "drift-writelogs")]
    [] e.op = "concsnapshot" -> [total |-> total, nlog |-> nlog, derived |-> derived, f |-> Flag(ConcOK(e), "concsnapshot")]
    [] OTHER -> [total |-> total, nlog |-> nlog, derived |-> derived, f |-> {"unknown-op"}]

TraceInit == rcap = Cap /\ total = 0 /\ nlog = 1 /\ hist = <<>> /\ l = 1 /\ bad = {} /\ nbad = 0 /\ ntr = 0 /\ derived = FALSE
TraceNext ==
  /\ l <= Len(Trace)
  /\ LET e == Trace[l] r == Step(e) IN
     /\ rcap' = IF e.op = "reset" THEN e.cap ELSE rcap
     /\ total' = r.total /\ nlog' = r.nlog /\ derived' = r.derived /\ hist' = hist
     /\ l' = l + 1 /\ ntr' = IF e.op \in {"reset", "concsnapshot"} THEN ntr + 1 ELSE ntr
     /\ nbad' = IF r.f = {} THEN nbad ELSE nbad + 1
     /\ bad' = IF r.f = {} \/ ~KeepBad(bad, e.op, r.f, {}) THEN bad ELSE bad \cup {<<e.tid, l, e.op, r.f, {}>>}
TraceSpec == TraceInit /\ [][TraceNext]_tvars
Report == l <= Len(Trace) \/ PrintT(<<"VERIF_RESULT", l - 1, ntr, nbad, bad>>)
=============================================================================
