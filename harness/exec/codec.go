package exec

import (
	"bytes"
	"context"
	"fmt"
	"math/rand"
	"time"

	"verifharness/tr"

	"github.com/fxamacker/cbor/v2"

	"github.com/0chain/common/core/util"
	"github.com/0chain/common/core/util/wmpt"
)

// CMut is one mutation of a seed encoding.
type CMut struct {
	M string `json:"m"` // trunc dropsep settype inflate splice flip dupsep zero
	A int    `json:"a"`
	B int    `json:"b"`
}

// CPlan is a mutation plan emitted by TLC from Codec.tla.
type CPlan struct {
	Seed int    `json:"seed"`
	Muts []CMut `json:"muts"`
}

// Seed is a real encoding harvested from the code under test.
type Seed struct {
	Kind string // mpt | wnode | wpath | wproof
	Data []byte
	Note string
}

// CStats collects coverage.
type CStats struct {
	Traces, Events, Panics, Timeouts, Accepted, Rejected int
	Distinct                                             map[string]bool
}

// HarvestSeeds builds the seed corpus from real tries.
func HarvestSeeds() []Seed {
	var seeds []Seed
	// state-trie nodes of every kind from a real trie
	db := util.NewMemoryNodeDB()
	t := util.NewMerklePatriciaTrie(db, 3, nil, NewTxnCache())
	for _, kv := range [][2]string{{"", "rootval"}, {"00", "a"}, {"0011", "b:c"}, {"0012", "\x00\xff:"}, {"01", "c"}, {"abcdef", "longer value with : separators ::"}, {"abcd00", "x"}} {
		t.Insert(util.Path(kv[0]), Val([]byte(kv[1])))
	}
	seen := map[string]bool{}
	_ = db.Iterate(context.Background(), func(ctx context.Context, key util.Key, node util.Node) error {
		enc := node.Encode()
		tag := fmt.Sprintf("%T/%d", node, len(enc)/40)
		if !seen[tag] {
			seen[tag] = true
			seeds = append(seeds, Seed{"mpt", enc, tag})
		}
		return nil
	})
	// weighted-trie node records, a path export and proofs
	kvs := &memKV{m: map[string][]byte{}}
	wt := wmpt.New(nil, kvs)
	for i, k := range WKeys[:7] {
		w, v := wval([]string{"a", "bb", "ccc"}[i%3] + fmt.Sprint("#", i))
		wt.Update(k, v, w)
	}
	b, _ := wt.Commit(1)
	b.Commit(true)
	wseen := map[byte]int{}
	for _, v := range kvs.m {
		if len(v) > 0 {
			// first byte after the map header distinguishes the record kinds
			kind := v[1]
			if wseen[kind] < 2 {
				wseen[kind]++
				seeds = append(seeds, Seed{"wnode", append([]byte(nil), v...), fmt.Sprintf("rec%d", kind)})
			}
		}
	}
	if p, err := wt.GetPath([][]byte{WKeys[0], WKeys[3]}); err == nil {
		seeds = append(seeds, Seed{"wpath", p, "path2"})
	}
	if p, err := wt.GetPath(nil); err == nil {
		seeds = append(seeds, Seed{"wpath", p, "path0"})
	}
	for _, blk := range []uint64{1, 3, wt.Weight()} {
		if _, p, err := wt.GetBlockProof(blk); err == nil {
			seeds = append(seeds, Seed{"wproof", p, fmt.Sprintf("proof%d", blk)})
		}
	}
	return seeds
}

func sepPositions(d []byte) []int {
	var out []int
	for i, c := range d {
		if c == ':' {
			out = append(out, i)
		}
	}
	return out
}

// ApplyMuts concretises a plan on seed bytes.
func ApplyMuts(seeds []Seed, si int, muts []CMut) []byte {
	d := append([]byte(nil), seeds[si%len(seeds)].Data...)
	for _, m := range muts {
		if len(d) == 0 {
			break
		}
		switch m.M {
		case "trunc": // keep a/8 of the input (a in 0..8), minus b bytes
			n := len(d)*m.A/8 - m.B
			if n < 0 {
				n = 0
			}
			if n > len(d) {
				n = len(d)
			}
			d = d[:n]
		case "dropsep":
			if sp := sepPositions(d); len(sp) > 0 {
				i := sp[m.A%len(sp)]
				d = append(d[:i], d[i+1:]...)
			}
		case "dupsep":
			if sp := sepPositions(d); len(sp) > 0 {
				i := sp[m.A%len(sp)]
				d = append(d[:i+1], append([]byte{':'}, d[i+1:]...)...)
			} else {
				d = append(d, ':')
			}
		case "settype":
			d[0] = byte(m.A)
		case "inflate": // inflate the a-th length-like byte (CBOR headers 0x40..0x5b, 0x80..0x9b, 0xa0..0xbb) to b
			cnt := 0
			for i, c := range d {
				major := c >> 5
				if major == 2 || major == 4 || major == 5 {
					if cnt == m.A {
						d[i] = (c & 0xe0) | byte(m.B&0x1f)
						break
					}
					cnt++
				}
			}
		case "splice": // first part of this seed, then the tail of seed a from fraction b/8
			o := seeds[m.A%len(seeds)].Data
			cut := len(d) / 2
			oc := len(o) * (m.B % 9) / 8
			d = append(append([]byte(nil), d[:cut]...), o[oc:]...)
		case "flip":
			d[(len(d)*m.A/16)%len(d)] ^= 1 << uint(m.B%8)
		case "zero":
			i := (len(d) * m.A / 16) % len(d)
			for j := i; j < len(d) && j < i+m.B; j++ {
				d[j] = 0
			}
		case "bslen", "arrlen", "null", "int", "mapkey", "inner":
			d = StructMut(d, m.M, m.A, m.B)
		case "grow": // insert b copies of 0xff at fraction a/8
			i := len(d) * (m.A % 9) / 8
			d = append(d[:i], append(bytes.Repeat([]byte{0xff}, m.B), d[i:]...)...)
		}
	}
	return d
}

func timed(f func() string) string {
	done := make(chan string, 1)
	go func() { done <- Guard(f) }()
	select {
	case r := <-done:
		return r
	case <-time.After(2 * time.Second):
		return "timeout"
	}
}

// DecodeAll feeds data to the four decoders; returns outcome and re-encode outcome per target.
func DecodeAll(data []byte) map[string][2]string {
	out := map[string][2]string{}
	{
		var node util.Node
		r := timed(func() string {
			n, err := util.CreateNode(bytes.NewReader(data))
			if err != nil {
				return "err"
			}
			node = n
			return "ok"
		})
		re := "none"
		if r == "ok" {
			re = timed(func() string {
				_ = node.Encode()
				_ = node.GetHashBytes()
				_ = node.GetHash()
				_ = node.CloneNode()
				return "ok"
			})
		}
		out["mpt"] = [2]string{r, re}
	}
	{
		var node wmpt.Node
		r := timed(func() string {
			n, err := wmpt.DeserializeNode(data)
			if err != nil {
				return "err"
			}
			node = n
			return "ok"
		})
		re := "none"
		if r == "ok" {
			re = timed(func() string {
				_, _ = node.Serialize()
				_ = node.Hash()
				_ = node.Weight()
				_ = node.Copy()
				return "ok"
			})
		}
		out["wnode"] = [2]string{r, re}
	}
	{
		t := wmpt.New(nil, nil)
		r := timed(func() string {
			if err := t.Deserialize(data); err != nil {
				return "err"
			}
			return "ok"
		})
		re := "none"
		if r == "ok" {
			re = timed(func() string {
				_ = t.Root()
				_ = t.Weight()
				_, _ = t.GetPath(nil)
				return "ok"
			})
		}
		out["wpath"] = [2]string{r, re}
	}
	{
		r := timed(func() string {
			res := "err"
			for _, b := range []uint64{0, 1, 2, 5} {
				if _, _, err := wmpt.New(nil, nil).VerifyBlockProof(b, data); err == nil {
					res = "ok"
				}
			}
			return res
		})
		out["wproof"] = [2]string{r, "none"}
	}
	return out
}

// RunCodecInput decodes one input with every decoder and emits one event.
func RunCodecInput(w *tr.Writer, st *CStats, tid int, seedKind, how string, data []byte) {
	w.NextTrace()
	st.Traces++
	st.Events++
	res := DecodeAll(data)
	ev := map[string]any{"tid": tid, "op": "decode", "seedkind": seedKind, "how": how, "len": len(data)}
	sig := seedKind + "/"
	for _, tg := range []string{"mpt", "wnode", "wpath", "wproof"} {
		ev[tg] = res[tg][0]
		ev[tg+"re"] = res[tg][1]
		sig += res[tg][0][:1] + res[tg][1][:1]
		switch res[tg][0] {
		case "panic":
			st.Panics++
		case "timeout":
			st.Timeouts++
		case "ok":
			st.Accepted++
		default:
			st.Rejected++
		}
		if res[tg][1] == "panic" {
			st.Panics++
		}
	}
	if len(data) <= 160 {
		ev["hex"] = fmt.Sprintf("%x", data)
	} else {
		ev["hex"] = fmt.Sprintf("%x...", data[:160])
	}
	st.Distinct[sig+how] = true
	w.Emit(ev)
}

// RandomBytes draws unstructured and semi-structured inputs.
func RandomBytes(r *rand.Rand, seeds []Seed) ([]byte, string) {
	switch r.Intn(4) {
	case 0:
		d := make([]byte, r.Intn(80))
		r.Read(d)
		return d, "random"
	case 1:
		d := make([]byte, 1+r.Intn(60))
		r.Read(d)
		d[0] = []byte{1, 2, 4, 8, 0, 16, 3, 0xff}[r.Intn(8)]
		return d, "typed-random"
	default:
		var muts []CMut
		kinds := []string{"trunc", "dropsep", "dupsep", "settype", "inflate", "splice", "flip", "zero", "grow",
			"bslen", "arrlen", "null", "int", "mapkey", "inner", "bslen", "arrlen", "inner", "inner"}
		for i := 0; i < 1+r.Intn(3); i++ {
			muts = append(muts, CMut{M: kinds[r.Intn(len(kinds))], A: r.Intn(32), B: r.Intn(32)})
		}
		si := r.Intn(len(seeds))
		return ApplyMuts(seeds, si, muts), "mutated"
	}
}

// ---------------------------------------------------------------- CBOR-level structural mutations

type cborWalker struct {
	kind   string
	target int
	arg    int
	count  int
}

var bsLens = []int{0, 1, 31, 33, 39, 40, 41, 50, 71, 72, 73, 104, 200}
var arrLens = []int{0, 1, 2, 3, 4, 15, 16, 17, 18, 40}

func (cw *cborWalker) walk(v any) any {
	switch x := v.(type) {
	case []byte:
		if cw.kind == "bslen" {
			if cw.count == cw.target {
				cw.count++
				n := bsLens[cw.arg%len(bsLens)]
				out := make([]byte, n)
				copy(out, x)
				return out
			}
			cw.count++
		}
		if cw.kind == "null" {
			if cw.count == cw.target {
				cw.count++
				return nil
			}
			cw.count++
		}
		if cw.kind == "inner" { // a byte string that itself holds CBOR (node record inside a proof/path pair)
			if cw.count == cw.target {
				cw.count++
				var inner any
				if err := cbor.Unmarshal(x, &inner); err == nil {
					sub := &cborWalker{kind: []string{"bslen", "arrlen", "null", "int", "mapkey"}[cw.arg%5], target: cw.arg / 5 % 6, arg: cw.arg / 3}
					if b, err := cbor.Marshal(sub.walk(inner)); err == nil {
						return b
					}
				}
				return x
			}
			cw.count++
		}
		return x
	case []any:
		out := make([]any, len(x))
		for i, e := range x {
			out[i] = cw.walk(e)
		}
		if cw.kind == "arrlen" {
			if cw.count == cw.target {
				cw.count++
				n := arrLens[cw.arg%len(arrLens)]
				res := make([]any, n)
				for i := range res {
					if len(out) > 0 {
						res[i] = out[i%len(out)]
					}
				}
				return res
			}
			cw.count++
		}
		if cw.kind == "null" {
			if cw.count == cw.target {
				cw.count++
				return nil
			}
			cw.count++
		}
		return out
	case map[any]any:
		out := map[any]any{}
		for k, e := range x {
			nk := k
			if cw.kind == "mapkey" {
				if cw.count == cw.target {
					nk = uint64(10 + cw.arg%6)
				}
				cw.count++
			}
			out[nk] = cw.walk(e)
		}
		return out
	case uint64:
		if cw.kind == "int" {
			if cw.count == cw.target {
				cw.count++
				return []any{uint64(0), uint64(1<<63 - 1), uint64(1<<64 - 1), int64(-1), "str", []byte{1}}[cw.arg%6]
			}
			cw.count++
		}
		return x
	}
	return v
}

// StructMut applies one CBOR-level mutation; data that is not CBOR is returned unchanged.
func StructMut(data []byte, kind string, target, arg int) []byte {
	var v any
	dm, _ := cbor.DecOptions{MaxArrayElements: 1 << 16}.DecMode()
	if err := dm.Unmarshal(data, &v); err != nil {
		return data
	}
	cw := &cborWalker{kind: kind, target: target, arg: arg}
	out, err := cbor.Marshal(cw.walk(v))
	if err != nil {
		return data
	}
	return out
}
