#!/usr/bin/env python3
"""(Re)create /tmp/seedkit - what a seeding sub-agent may read: property texts (from properties.jsonl), README, RULES, the grocksdb
stub, and one prompt per property listing the mechanisms earlier seeded changes used (from /verif/seeded/*/meta.json).
Usage: python3 lib/seedkit/mkkit.py [Cxx ...]   (prompts only for the listed properties; default all)"""
import glob, json, os, shutil, sys
HERE = os.path.dirname(os.path.abspath(__file__))
KIT = "/tmp/seedkit"
os.makedirs(KIT + "/prompts", exist_ok=True)
for f in ("README.txt", "RULES.txt", "RULES_BENIGN.txt"):
    shutil.copy(os.path.join(HERE, f), KIT)
if not os.path.isdir(KIT + "/grocksdbstub"):
    shutil.copytree("/verif/harness/grocksdbstub", KIT + "/grocksdbstub")
for line in open("/verif/properties.jsonl"):
    p = json.loads(line)
    txt = "PROPERTY %s - %s\n\nStatement: %s\n\nQuantifier: %s\n\nWhy tests cannot settle it: %s\n\nAnchored in files: %s\n" % (
        p["id"], p.get("title", ""), p.get("statement", ""), p.get("quantifier", ""), p.get("why_tests_insufficient", p.get("why", "")),
        ", ".join(p.get("files", p.get("anchored_in", [])) if isinstance(p.get("files", p.get("anchored_in", [])), list) else []))
    dst = os.path.join(KIT, p["id"] + ".txt")
    if not os.path.exists(dst):
        open(dst, "w").write(txt)
FILES = json.load(open(os.path.join(HERE, "areas.json")))
want = [a for a in sys.argv[1:]] or sorted(FILES)
for prop in want:
    prev = []
    for f in sorted(glob.glob("/verif/seeded/%s-*/meta.json" % prop)):
        d = json.load(open(f))
        prev.append(d.get("needs_to_manifest", "").split(":")[0][:170])
    a = FILES[prop]
    txt = ("Your property id is %s. Read /tmp/seedkit/RULES.txt and follow it exactly (replace ID by %s everywhere: worktree /tmp/wt-%s, "
           "demo dir /tmp/demo-%s, property text /tmp/seedkit/%s.txt).\n\n" % (prop, prop, prop, prop, prop))
    if a.get("notes"):
        txt += a["notes"] + "\n\n"
    txt += ("Extra guidance for this round (a LATE round: be inventive and SUBTLE). Earlier exercises already covered these mechanisms - "
            "do NOT repeat any of them or a close variant:\n")
    for i, x in enumerate(prev, 1):
        txt += "  (%d) %s\n" % (i, x)
    txt += ("\nThe relevant code: %s. Read the code carefully and look for a place where correctness rests on a detail that a plausible "
            "refactoring, optimisation or clean-up would disturb: a copy that looks redundant, an order of two statements, a flag set on only "
            "one of two paths, a boundary comparison, state kept across calls, a cache, a lock scope, the difference between two code paths "
            "that should agree.  Before writing the demonstration, re-read the property statement and its quantifier and make sure your change "
            "breaks exactly what is promised there, inside the quantifier (not a stronger reading of it).  The break must need something "
            "specific to manifest; say precisely what.\n" % a["files"])
    open(os.path.join(KIT, "prompts", prop + ".txt"), "w").write(txt)
print("seed kit in", KIT, "prompts:", " ".join(want))
