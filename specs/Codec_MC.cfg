SPECIFICATION CSpec
CONSTANTS
  MaxMuts = 0
  GenMode = FALSE
INVARIANTS RoundTrip TruncationSeen
CHECK_DEADLOCK FALSE
