SPECIFICATION Spec
CONSTANTS
  NKeys = 5
  ReW = {1, 3}
  Vals <- MCVals
  Wt <- MCWt
  Depth = 14
  GenMode = TRUE
CHECK_DEADLOCK FALSE
