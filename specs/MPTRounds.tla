------------------------------ MODULE MPTRounds ------------------------------
(***************************************************************************)
(* Trace specification for block rounds on the state trie (C03, C04, C05): *)
(* a block trie over a layered store, child tries as transactions that are *)
(* merged or discarded, saving the block's pending changes to the          *)
(* persistent store, recording dead nodes, pruning, crashes (a prefix of   *)
(* the write stream of the interrupted operation survives) and reopening.  *)
(*                                                                         *)
(* Contents follow the map semantics of MPT.tla.  Node identities are      *)
(* opaque interned ids; the node graph `kids` is shipped with the trace    *)
(* (parsed by the bridge from the bytes the real code produced) and        *)
(* reachability is computed here.                                          *)
(***************************************************************************)
EXTENDS MPT, Json, IOUtils

Trace == ndJsonDeserialize(IOEnv.TRACE)

VARIABLES l, bad, nbad, ntr,
          tc,         \* live trie id -> content
          startRoot,  \* child id -> root id of the parent when the child was opened
          stale,      \* children that were open while another child's merge was applied to the parent
          pobs,       \* trie id -> observation after the previous event
          kids,       \* node id -> set of child node ids
          store,      \* ids present in the persistent store (default column family)
          deadsOf,    \* version -> ids recorded dead for that round
          sroot,      \* version -> saved root id
          scont,      \* version -> saved content
          pruneBelow,
          mode,       \* "idle" | "save" | "prune"
          ver

tvars == <<content, l, bad, nbad, ntr, tc, startRoot, stale, pobs, kids, store, deadsOf, sroot, scont, pruneBelow, mode, ver>>

MaxBad == 40
\* deviations are kept per class (operation, failed checks, deviation flags): a flood of one class never hides another
KeepBad(bd, op, fl, dv) == Cardinality({b \in bd : b[3] = op /\ b[4] = fl /\ b[5] = dv}) < 6 /\ Cardinality(bd) < 40 * MaxBad
ToSet(s) == {s[i] : i \in DOMAIN s}
Flag(cond, name) == IF cond THEN {} ELSE {name}
EmptyFn == [x \in {} |-> 0]
FnPut(f, k, v) == [x \in (DOMAIN f) \cup {k} |-> IF x = k THEN v ELSE f[x]]
FnDel(f, k) == [x \in (DOMAIN f) \ {k} |-> f[x]]

FromItems(items) ==
  LET S == ToSet(items)
  IN  [p \in {it[1] : it \in S} |-> (CHOOSE it \in S : it[1] = p)[2]]

---------------------------------------------------------------------------
(* node graph *)
AddRows(g, rows) ==
  LET R == ToSet(rows)
      new == {r[1] : r \in R} \ DOMAIN g
  IN  [x \in (DOMAIN g) \cup new |-> IF x \in DOMAIN g THEN g[x]
                                      ELSE ToSet((CHOOSE r \in R : r[1] = x)[4])]

RECURSIVE ReachFrom(_, _, _)
ReachFrom(g, frontier, seen) ==
  IF frontier = {} THEN seen
  ELSE LET nxt == UNION {IF x \in DOMAIN g THEN g[x] ELSE {} : x \in frontier}
       IN  ReachFrom(g, nxt \ (seen \cup frontier), seen \cup frontier)
Reach(g, root) == IF root = 0 THEN {} ELSE ReachFrom(g, {root}, {})
\* every node reachable from root is known and present in st
Resolvable(g, root, st) == LET R == Reach(g, root) IN R \subseteq st /\ R \subseteq DOMAIN g

---------------------------------------------------------------------------
ObsOf(e) == [o \in {x.t : x \in ToSet(e.obs)} |-> CHOOSE x \in ToSet(e.obs) : x.t = o]
View(o) == [root |-> o.root, items |-> ToSet(o.items), news |-> ToSet(o.news), deads |-> ToSet(o.deads)]

\* every live trie shows exactly its content; tries not touched by the event are exactly as before
\* A child that was open while another child's merge was applied is STALE: the parent deletes the in-block
\* nodes the merge superseded, so a stale child's reads may fail with an error; it must still never show
\* anything but its own content, and its (rejected) merge must leave the parent untouched.
LiveFlags(e, ntc, targets, stl) ==
  LET O == ObsOf(e) IN
       Flag(DOMAIN O = DOMAIN ntc, "liveset")
  \cup Flag(\A t \in DOMAIN O \cap DOMAIN ntc :
              \/ (O[t].ires = "ok" /\ ToSet(O[t].items) = Pairs(ntc[t]) /\ Len(O[t].items) = Cardinality(DOMAIN ntc[t]))
              \/ (t \in stl /\ O[t].ires \notin {"ok", "panic"}), "content")
  \cup Flag(\A t \in ((DOMAIN O \cap DOMAIN pobs) \ targets) \ stl : View(O[t]) = pobs[t], "isolation")
  \cup Flag(\A t \in DOMAIN O : ~O[t].corrupt, "corrupt")
  \cup Flag(\A t, u \in DOMAIN O \cap DOMAIN ntc : O[t].root = O[u].root => ntc[t] = ntc[u], "rootclash")

NextObs(e) == LET O == ObsOf(e) IN [t \in DOMAIN O |-> View(O[t])]

RetainedOK(g, st, sr, pb) == \A v \in DOMAIN sr : v < pb \/ Resolvable(g, sr[v], st)

---------------------------------------------------------------------------
TraceInit ==
  /\ content = EmptyContent /\ l = 1 /\ bad = {} /\ nbad = 0 /\ ntr = 0
  /\ tc = EmptyFn /\ startRoot = EmptyFn /\ stale = {} /\ pobs = EmptyFn /\ kids = EmptyFn /\ store = {}
  /\ deadsOf = EmptyFn /\ sroot = EmptyFn /\ scont = EmptyFn /\ pruneBelow = 0 /\ mode = "idle" /\ ver = 0

\* Each case yields a record of the next values of the model variables plus flags.
Base == [tc |-> tc, startRoot |-> startRoot, stale |-> stale, pobs |-> pobs, kids |-> kids, store |-> store, deadsOf |-> deadsOf,
         sroot |-> sroot, scont |-> scont, pruneBelow |-> pruneBelow, mode |-> mode, ver |-> ver, f |-> {}]

ContentOfRoot(r) ==
  IF r = 0 THEN EmptyContent
  ELSE IF \E v \in DOMAIN sroot : sroot[v] = r THEN scont[CHOOSE v \in DOMAIN sroot : sroot[v] = r]
  ELSE EmptyContent

RECURSIVE ApplyAll(_, _, _)
ApplyAll(c, kvs, i) ==
  IF i > Len(kvs) THEN c
  ELSE ApplyAll(IF kvs[i][2] = "" THEN DeleteResp(c, kvs[i][1]).c ELSE InsertResp(c, kvs[i][1], kvs[i][2]).c, kvs, i + 1)

Step(e) ==
  LET g2 == IF "nodes" \in DOMAIN e THEN AddRows(kids, e.nodes) ELSE kids IN
  CASE e.op = "reset" ->
         [Base EXCEPT !.tc = EmptyFn, !.startRoot = EmptyFn, !.stale = {}, !.pobs = EmptyFn, !.kids = EmptyFn, !.store = {},
                      !.deadsOf = EmptyFn, !.sroot = EmptyFn, !.scont = EmptyFn, !.pruneBelow = 0, !.mode = "idle", !.ver = 0]
    [] e.op = "round" ->
         LET c0 == ContentOfRoot(e.from)
             ntc == [t \in {0} |-> c0]
         IN  [Base EXCEPT !.tc = ntc, !.startRoot = EmptyFn, !.stale = {}, !.pobs = NextObs(e), !.kids = g2, !.ver = e.ver, !.mode = "idle",
                          !.f = LiveFlags(e, ntc, {0}, {})
                                \cup Flag(e.from = 0 \/ \E v \in DOMAIN sroot : sroot[v] = e.from, "unknownstart")]
    [] e.op = "open" ->
         LET ntc == FnPut(tc, e.t, tc[0])
         IN  [Base EXCEPT !.tc = ntc, !.startRoot = FnPut(startRoot, e.t, pobs[0].root), !.pobs = NextObs(e), !.kids = g2,
                          !.f = LiveFlags(e, ntc, {e.t}, stale)]
    [] e.op \in {"ins", "del"} ->
         LET r == IF e.op = "ins" THEN InsertResp(tc[e.t], e.p, e.v) ELSE DeleteResp(tc[e.t], e.p)
             \* an operation on a stale child may fail with an error and then changes nothing
             failed == e.t \in stale /\ e.res \notin {"ok", "notpresent", "panic"}
             ntc == IF failed THEN tc ELSE FnPut(tc, e.t, r.c)
             \* a direct change of the parent makes every open child stale (the parent moved on)
             \* (its root changed; re-inserting an equal value re-creates the path at the current version)
             stl == IF e.t = 0 /\ 0 \in DOMAIN ObsOf(e) /\ ObsOf(e)[0].root # pobs[0].root THEN (DOMAIN tc) \ {0} ELSE stale
         IN  [Base EXCEPT !.tc = ntc, !.pobs = NextObs(e), !.kids = g2, !.stale = stl,
                          !.f = Flag(failed \/ e.res = r.res, "res") \cup Flag(e.res # "panic", "panic")
                                \cup LiveFlags(e, ntc, {e.t}, stl)]
    \* composite action: a sequence of inserts/deletes (value "" = delete) of one trie in a single event
    [] e.op = "bulk" ->
         LET ntc == FnPut(tc, e.t, ApplyAll(tc[e.t], e.kvs, 1))
             stl == IF e.t = 0 /\ 0 \in DOMAIN ObsOf(e) /\ ObsOf(e)[0].root # pobs[0].root THEN (DOMAIN tc) \ {0} ELSE stale
         IN  [Base EXCEPT !.tc = ntc, !.pobs = NextObs(e), !.kids = g2, !.stale = stl,
                          !.f = Flag(e.res = "ok", "res") \cup LiveFlags(e, ntc, {e.t}, stl)]
    [] e.op = "merge" ->
         LET c == e.t
             same  == pobs[c].root = pobs[0].root
             isstale == ~same /\ pobs[0].root # startRoot[c]
             applied == ~same /\ ~isstale
             ntc0 == IF applied THEN FnPut(tc, 0, tc[c]) ELSE tc
             ntc == FnDel(ntc0, c)
             O == ObsOf(e)
         IN  [Base EXCEPT !.tc = ntc, !.startRoot = FnDel(startRoot, c), !.pobs = NextObs(e), !.kids = g2,
                          !.stale = IF applied THEN (DOMAIN ntc) \ {0} ELSE stale \ {c},
                          !.f = Flag(e.res = (IF isstale THEN "rejected" ELSE "ok"), "mergeres")
                                \cup Flag(~applied \/ (0 \in DOMAIN O /\ O[0].root = pobs[c].root), "mergeview")
                                \* a rejected or no-op merge leaves the parent exactly as it was
                                \cup LiveFlags(e, ntc, IF applied THEN {0} ELSE {},
                                                IF applied THEN (DOMAIN ntc) \ {0} ELSE stale \ {c})]
    [] e.op = "discard" ->
         LET ntc == FnDel(tc, e.t)
         IN  [Base EXCEPT !.tc = ntc, !.startRoot = FnDel(startRoot, e.t), !.stale = stale \ {e.t}, !.pobs = NextObs(e), !.kids = g2,
                          !.f = LiveFlags(e, ntc, {}, stale)]
    [] e.op = "savebegin" ->
         LET ntc == [t \in {0} |-> tc[0]]
         IN  [Base EXCEPT !.tc = ntc, !.stale = {}, !.pobs = NextObs(e), !.kids = g2, !.mode = "save", !.f = LiveFlags(e, ntc, {}, {})]
    [] e.op = "w" ->
         LET st2 == (store \cup ToSet(e.puts)) \ ToSet(e.dels)
             allowed == UNION {deadsOf[r] : r \in {x \in DOMAIN deadsOf : x < pruneBelow}}
         IN  [Base EXCEPT !.store = st2, !.kids = g2,
                          !.f = \* no storage operation ever damages a retained saved root (every state is a crash point)
                                Flag(ToSet(e.dels) = {} \/ RetainedOK(g2, st2, sroot, pruneBelow),
                                     IF mode = "prune" THEN "prunedamage" ELSE "damaged")
                                \* pruning deletes only nodes recorded dead in rounds below the prune version
                                \cup Flag(mode # "prune" \/ ToSet(e.dels) \subseteq allowed, "prunedlive")
                                \cup Flag(mode # "prune" \/ \A v \in ToSet(e.ddel) : v < pruneBelow, "prunedrecord")
                                \cup Flag(mode = "prune" \/ ToSet(e.dels) = {}, "savedeletes")]
    [] e.op = "saveend" ->
         LET sr2 == FnPut(sroot, e.ver, e.root)
             sc2 == FnPut(scont, e.ver, tc[0])
         IN  [Base EXCEPT !.sroot = sr2, !.scont = sc2, !.mode = "idle",
                          !.f = Flag(e.res = "ok", "saveres")
                                \* the saved root is complete on the store alone
                                \cup Flag(Resolvable(kids, e.root, store), "incomplete")
                                \cup Flag(e.root = pobs[0].root, "saveroot")
                                \* no node recorded dead in this or an earlier round is reachable from the new root
                                \cup Flag(\A r \in DOMAIN deadsOf : r >= e.ver \/ deadsOf[r] \cap Reach(kids, e.root) = {}, "deadlive")]
    [] e.op = "recdead" ->
         [Base EXCEPT !.deadsOf = FnPut(deadsOf, e.ver, ToSet(e.deads)),
                      !.f = Flag(ToSet(e.deads) \cap Reach(kids, sroot[e.ver]) = {}, "deadlive")]
    [] e.op = "prune" ->
         [Base EXCEPT !.pruneBelow = IF e.ver > pruneBelow THEN e.ver ELSE pruneBelow, !.mode = "prune"]
    [] e.op = "pruneend" ->
         [Base EXCEPT !.mode = "idle", !.f = Flag(e.res = "ok", "pruneres")
                                             \cup Flag(RetainedOK(kids, store, sroot, pruneBelow), "prunedamage")]
    [] e.op = "crash" ->
         [Base EXCEPT !.tc = EmptyFn, !.startRoot = EmptyFn, !.stale = {}, !.pobs = EmptyFn, !.mode = "idle"]
    [] e.op = "reopen" ->
         [Base EXCEPT !.f =
            Flag(\A c \in ToSet(e.checks) :
                   c.ver < pruneBelow \/ c.ver \notin DOMAIN scont
                   \/ (c.ires = "ok" /\ c.missing = 0 /\ c.keysOK /\ ToSet(c.items) = Pairs(scont[c.ver])
                       /\ Len(c.items) = Cardinality(DOMAIN scont[c.ver])),
                 IF pruneBelow > 0 THEN "reopenpruned" ELSE "reopen")]
    [] OTHER -> [Base EXCEPT !.f = {"unknown-op"}]

TraceNext ==
  /\ l <= Len(Trace)
  /\ LET e == Trace[l]
         r == Step(e)
         f == r.f
     IN  /\ tc' = r.tc /\ startRoot' = r.startRoot /\ stale' = r.stale /\ pobs' = r.pobs /\ kids' = r.kids /\ store' = r.store
         /\ deadsOf' = r.deadsOf /\ sroot' = r.sroot /\ scont' = r.scont /\ pruneBelow' = r.pruneBelow
         /\ mode' = r.mode /\ ver' = r.ver
         /\ content' = content
         /\ l' = l + 1
         /\ ntr' = IF e.op = "reset" THEN ntr + 1 ELSE ntr
         /\ nbad' = IF f = {} THEN nbad ELSE nbad + 1
         /\ bad' = IF f = {} \/ ~KeepBad(bad, e.op, f, {}) THEN bad ELSE bad \cup {<<e.tid, l, e.op, f, {}>>}

TraceSpec == TraceInit /\ [][TraceNext]_tvars

Report == l <= Len(Trace) \/ PrintT(<<"VERIF_RESULT", l - 1, ntr, nbad, bad>>)
=============================================================================
