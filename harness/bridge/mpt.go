// Package bridge holds independent re-implementations of the published node
// formats of 0chain/common (state trie and weighted trie).  It shares no code
// with /repo: it is the trusted base that ties the abstract terms used by the
// TLA+ specifications to concrete bytes.
package bridge

import (
	"bytes"
	"encoding/binary"
	"encoding/hex"
	"errors"
	"fmt"
	"sort"

	"golang.org/x/crypto/sha3"
)

// MNode is a parsed state-trie node.
type MNode struct {
	Kind    byte // 'L', 'F', 'E'
	Version int64
	Origin  int64
	Prefix  []byte     // leaf
	Path    []byte     // leaf, extension
	Value   []byte     // leaf, full
	Kids    [16][]byte // full: child keys (nil = absent)
	Child   []byte     // extension
}

const (
	typeLeaf = 2
	typeFull = 4
	typeExt  = 8
)

var ErrFormat = errors.New("bridge: malformed state-trie node")

func isHexLower(b []byte) bool {
	for _, c := range b {
		if !((c >= '0' && c <= '9') || (c >= 'a' && c <= 'f')) {
			return false
		}
	}
	return true
}

// ParseMPTNode decodes the byte form written to node stores.
func ParseMPTNode(data []byte) (*MNode, error) {
	if len(data) < 17 {
		return nil, ErrFormat
	}
	n := &MNode{}
	n.Version = int64(binary.LittleEndian.Uint64(data[1:9]))
	n.Origin = int64(binary.LittleEndian.Uint64(data[9:17]))
	body := data[17:]
	switch data[0] {
	case typeLeaf:
		n.Kind = 'L'
		i := bytes.IndexByte(body, ':')
		if i < 0 {
			return nil, ErrFormat
		}
		n.Prefix = body[:i]
		body = body[i+1:]
		j := bytes.IndexByte(body, ':')
		if j < 0 {
			return nil, ErrFormat
		}
		n.Path = body[:j]
		n.Value = body[j+1:]
		if !isHexLower(n.Prefix) || !isHexLower(n.Path) {
			return nil, ErrFormat
		}
	case typeFull:
		n.Kind = 'F'
		for k := 0; k < 16; k++ {
			i := bytes.IndexByte(body, ':')
			if i < 0 {
				return nil, ErrFormat
			}
			if i > 0 {
				if i != 64 {
					return nil, ErrFormat
				}
				key := make([]byte, 32)
				if _, err := hex.Decode(key, body[:i]); err != nil {
					return nil, ErrFormat
				}
				n.Kids[k] = key
			}
			body = body[i+1:]
		}
		n.Value = body
	case typeExt:
		n.Kind = 'E'
		i := bytes.IndexByte(body, ':')
		if i < 0 {
			return nil, ErrFormat
		}
		n.Path = body[:i]
		n.Child = body[i+1:]
		if !isHexLower(n.Path) || len(n.Child) != 32 {
			return nil, ErrFormat
		}
	default:
		return nil, ErrFormat
	}
	return n, nil
}

func (n *MNode) body() []byte {
	var b bytes.Buffer
	switch n.Kind {
	case 'L':
		b.Write(n.Prefix)
		b.WriteByte(':')
		b.Write(n.Path)
		b.WriteByte(':')
		b.Write(n.Value)
	case 'F':
		for k := 0; k < 16; k++ {
			if n.Kids[k] != nil {
				b.WriteString(hex.EncodeToString(n.Kids[k]))
			}
			b.WriteByte(':')
		}
		b.Write(n.Value)
	case 'E':
		b.Write(n.Path)
		b.WriteByte(':')
		b.Write(n.Child)
	}
	return b.Bytes()
}

// Hash is the published node hash: sha3-256(LE64(origin) || body).
func (n *MNode) Hash() []byte {
	var o [8]byte
	binary.LittleEndian.PutUint64(o[:], uint64(n.Origin))
	h := sha3.New256()
	h.Write(o[:])
	h.Write(n.body())
	return h.Sum(nil)
}

// Encode is the published stored form.
func (n *MNode) Encode() []byte {
	var b bytes.Buffer
	switch n.Kind {
	case 'L':
		b.WriteByte(typeLeaf)
	case 'F':
		b.WriteByte(typeFull)
	case 'E':
		b.WriteByte(typeExt)
	}
	var w [8]byte
	binary.LittleEndian.PutUint64(w[:], uint64(n.Version))
	b.Write(w[:])
	binary.LittleEndian.PutUint64(w[:], uint64(n.Origin))
	b.Write(w[:])
	b.Write(n.body())
	return b.Bytes()
}

// Term is the abstract shape of a (sub)trie as the TLA+ specs see it.
type Term struct {
	T    string         // N, L, E, F, M (missing), B (bad: undecodable / key mismatch)
	Pre  []byte         // L
	Path []byte         // L, E
	Val  []byte         // L, F
	Kids map[byte]*Term // F, keyed by hex char
	Kid  *Term          // E
}

// Tok renders a byte-string value as a short token for traces.
func Tok(b []byte) string {
	if len(b) == 0 {
		return ""
	}
	if len(b) > 1<<16 {
		// huge values (size-limit boundary): "@L<len>.<c>" for a run of one byte, else length and a digest
		uniform := true
		for _, c := range b {
			if c != b[0] {
				uniform = false
				break
			}
		}
		if uniform && ((b[0] >= 'a' && b[0] <= 'z') || (b[0] >= '0' && b[0] <= '9')) {
			return fmt.Sprintf("@L%d.%c", len(b), b[0])
		}
		h := sha3.Sum256(b)
		return fmt.Sprintf("@H%d.%x", len(b), h[:8])
	}
	plain := b[0] != 'x'
	for _, c := range b {
		if !((c >= '0' && c <= '9') || (c >= 'a' && c <= 'z') || (c >= 'A' && c <= 'Z')) {
			plain = false
			break
		}
	}
	if plain {
		return string(b)
	}
	return "x" + hex.EncodeToString(b)
}

// Chars renders a path as a list of one-character strings.
func Chars(p []byte) []string {
	out := make([]string, len(p))
	for i, c := range p {
		out[i] = string([]byte{c})
	}
	return out
}

// JSON renders the term in the record layout used by specs/MPT.tla.
func (t *Term) JSON() map[string]any {
	switch t.T {
	case "L":
		return map[string]any{"t": "L", "pre": Chars(t.Pre), "path": Chars(t.Path), "val": Tok(t.Val)}
	case "E":
		return map[string]any{"t": "E", "path": Chars(t.Path), "kid": t.Kid.JSON()}
	case "F":
		kids := map[string]any{}
		for c, k := range t.Kids {
			kids[string([]byte{c})] = k.JSON()
		}
		return map[string]any{"t": "F", "val": Tok(t.Val), "kids": kids}
	default:
		return map[string]any{"t": t.T}
	}
}

const hexChars = "0123456789abcdef"

// WalkResult summarises a structural walk of a stored trie.
type WalkResult struct {
	Term      *Term
	KeysOK    bool // every visited node is stored under the independent hash of its content
	OriginsEq bool // every visited node has Origin == wantOrigin (only meaningful if wantOrigin >= 0)
	Missing   int
	Nodes     int
	Keys      [][]byte // keys of all visited present nodes
}

// WalkMPT parses the trie rooted at root, fetching encoded nodes through get
// (which returns nil if the key is absent).
func WalkMPT(root []byte, get func(key []byte) []byte, wantOrigin int64) *WalkResult {
	r := &WalkResult{KeysOK: true, OriginsEq: true}
	if len(root) == 0 {
		r.Term = &Term{T: "N"}
		return r
	}
	r.Term = walk(root, get, wantOrigin, r, 0)
	return r
}

func walk(key []byte, get func([]byte) []byte, wantOrigin int64, r *WalkResult, depth int) *Term {
	// a corrupted store can hold cycles: bound the walk (depth and total nodes)
	if depth > 400 || r.Nodes > 200000 {
		r.KeysOK = false
		return &Term{T: "B"}
	}
	data := get(key)
	if data == nil {
		r.Missing++
		return &Term{T: "M"}
	}
	n, err := ParseMPTNode(data)
	if err != nil {
		r.KeysOK = false
		return &Term{T: "B"}
	}
	r.Nodes++
	r.Keys = append(r.Keys, append([]byte(nil), key...))
	if !bytes.Equal(n.Hash(), key) {
		r.KeysOK = false
	}
	if wantOrigin >= 0 && n.Origin != wantOrigin {
		r.OriginsEq = false
	}
	switch n.Kind {
	case 'L':
		return &Term{T: "L", Pre: n.Prefix, Path: n.Path, Val: n.Value}
	case 'E':
		return &Term{T: "E", Path: n.Path, Kid: walk(n.Child, get, wantOrigin, r, depth+1)}
	default:
		t := &Term{T: "F", Val: n.Value, Kids: map[byte]*Term{}}
		for k := 0; k < 16; k++ {
			if n.Kids[k] != nil {
				t.Kids[hexChars[k]] = walk(n.Kids[k], get, wantOrigin, r, depth+1)
			}
		}
		return t
	}
}

// Item is one path/value pair.
type Item struct {
	Path  []byte
	Value []byte
}

// Items lists the path/value pairs a term holds (ordered by path).
func (t *Term) Items() []Item {
	var out []Item
	var rec func(t *Term, pre []byte)
	rec = func(t *Term, pre []byte) {
		switch t.T {
		case "L":
			if len(t.Val) > 0 {
				out = append(out, Item{append(append([]byte(nil), pre...), t.Path...), t.Val})
			}
		case "E":
			rec(t.Kid, append(append([]byte(nil), pre...), t.Path...))
		case "F":
			if len(t.Val) > 0 {
				out = append(out, Item{append([]byte(nil), pre...), t.Val})
			}
			for i := 0; i < 16; i++ {
				if k, ok := t.Kids[hexChars[i]]; ok {
					rec(k, append(append([]byte(nil), pre...), hexChars[i]))
				}
			}
		}
	}
	rec(t, nil)
	sort.Slice(out, func(i, j int) bool { return bytes.Compare(out[i].Path, out[j].Path) < 0 })
	return out
}

// ShapeClass is a coarse class of a stored node used to count coverage for C14.
func (n *MNode) ShapeClass(version int64) string {
	vc := "novalue"
	if len(n.Value) > 0 {
		vc = "plain"
		if bytes.IndexByte(n.Value, ':') >= 0 {
			vc = "sep"
		} else {
			for _, c := range n.Value {
				if c < 0x20 || c > 0x7e {
					vc = "binary"
					break
				}
			}
		}
	}
	oc := "cur"
	if n.Origin != version {
		oc = "old"
	}
	switch n.Kind {
	case 'L':
		return fmt.Sprintf("L/pre%d/path%d/%s/%s", min(len(n.Prefix), 3), min(len(n.Path), 3), vc, oc)
	case 'E':
		return fmt.Sprintf("E/path%d/%s", min(len(n.Path), 3), oc)
	default:
		c := 0
		for k := 0; k < 16; k++ {
			if n.Kids[k] != nil {
				c++
			}
		}
		return fmt.Sprintf("F/kids%d/%s/%s", min(c, 4), vc, oc)
	}
}
