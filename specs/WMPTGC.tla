------------------------------- MODULE WMPTGC -------------------------------
(***************************************************************************)
(* Garbage-collection bookkeeping of the weighted trie at the level of     *)
(* node identities (core/util/wmpt/trie.go: insert/delete queue the hash   *)
(* of every stored node they supersede in tempDeleted; Commit writes the   *)
(* dirty nodes, records them as created/saved and takes re-saved hashes    *)
(* out of the queues; DeleteNodes is staged: delete `deleted`, then        *)
(* deleted := tempDeleted).                                                *)
(*                                                                         *)
(* The trie is abstracted to positions: the root (one node per content),   *)
(* and per key a short node and a value node.  Nodes are CONTENT-ADDRESSED:*)
(*     hash(root)   = ("R", content)                                       *)
(*     hash(S_k)    = ("S", k, value)                                      *)
(*     hash(V_k)    = ("V", value)            -- no key, no position       *)
(* so two keys holding the same value share one stored value node, while   *)
(* the bookkeeping is by hash without reference counts.                    *)
(*                                                                         *)
(* Durable: every node of the last committed content is in storage.        *)
(*   AllowShared = FALSE  (distinct values per key)  : Durable holds       *)
(*   AllowShared = TRUE                              : TLC finds the       *)
(*        recorded finding SharedContent (C09/C11/C13): update one of two  *)
(*        keys with equal values, commit, two DeleteNodes passes.          *)
(***************************************************************************)
EXTENDS Naturals, FiniteSets, TLC

CONSTANTS Keys, Vals, AllowShared, MaxSteps

VARIABLES kv,       \* live content: key -> value (partial function)
          clean,    \* positions whose node is stored and unchanged ("R", <<"S",k>>, <<"V",k>>)
          chash,    \* position -> hash it was stored under (for clean positions)
          store,    \* hashes in storage
          dur,      \* last durably committed content
          tempDel, del,   \* staged deletion queues (hashes)
          emptied,  \* last key deleted, not committed yet
          steps

vars == <<kv, clean, chash, store, dur, tempDel, del, emptied, steps>>

Empty == [k \in {} |-> ""]
Put(f, k, v) == [x \in (DOMAIN f) \cup {k} |-> IF x = k THEN v ELSE f[x]]
Del(f, k) == [x \in (DOMAIN f) \ {k} |-> f[x]]

\* hashes are records of one shape (TLC compares only like with like)
HR(c) == [t |-> "R", k |-> 0, v |-> "", c |-> c]
HS(k, v) == [t |-> "S", k |-> k, v |-> v, c |-> Empty]
HV(v) == [t |-> "V", k |-> 0, v |-> v, c |-> Empty]
NodesOf(c) == IF DOMAIN c = {} THEN {} ELSE {HR(c)} \cup {HS(k, c[k]) : k \in DOMAIN c} \cup {HV(c[k]) : k \in DOMAIN c}
Positions(c) == IF DOMAIN c = {} THEN {} ELSE {<<"R", 0>>} \cup {<<"S", k>> : k \in DOMAIN c} \cup {<<"V", k>> : k \in DOMAIN c}
HashAt(c, p) == IF p[1] = "R" THEN HR(c) ELSE IF p[1] = "S" THEN HS(p[2], c[p[2]]) ELSE HV(c[p[2]])

Init == /\ kv = Empty /\ clean = {} /\ chash = [p \in {} |-> HV("")] /\ store = {} /\ dur = Empty
        /\ tempDel = {} /\ del = {} /\ emptied = FALSE /\ steps = 0

Dirty == Positions(kv) \ clean # {}
\* positions on the path of key k
PathPos(k) == {<<"R", 0>>, <<"S", k>>, <<"V", k>>}
\* insert/delete queue the stored hash of every clean node they replace
Superseded(k) == {chash[p] : p \in PathPos(k) \cap clean}

Update(k, v) ==
  /\ AllowShared \/ \A j \in DOMAIN kv : j = k \/ kv[j] # v
  /\ kv' = Put(kv, k, v)
  /\ tempDel' = tempDel \cup Superseded(k)
  /\ clean' = clean \ PathPos(k)
  /\ emptied' = FALSE
  /\ UNCHANGED <<chash, store, dur, del>>

Delete(k) ==
  /\ k \in DOMAIN kv
  /\ kv' = Del(kv, k)
  /\ tempDel' = tempDel \cup Superseded(k)
  /\ clean' = clean \ PathPos(k)
  /\ emptied' = (DOMAIN kv = {k})
  /\ UNCHANGED <<chash, store, dur, del>>

\* Commit writes every dirty node, and takes the hashes it (re-)wrote out of both queues (keepSaved)
Commit ==
  LET dirty == Positions(kv) \ clean
      saved == {HashAt(kv, p) : p \in dirty}
  IN  /\ store' = store \cup saved
      /\ clean' = Positions(kv)
      /\ chash' = [p \in Positions(kv) |-> HashAt(kv, p)]
      /\ tempDel' = tempDel \ saved
      /\ del' = del \ saved
      /\ dur' = kv /\ emptied' = FALSE
      /\ UNCHANGED kv

\* DeleteNodes: nothing while uncommitted changes exist; otherwise delete the armed queue and arm the staged one
GC ==
  /\ IF Dirty \/ emptied THEN UNCHANGED <<store, del, tempDel>>
     ELSE /\ store' = store \ del /\ del' = tempDel /\ tempDel' = {}
  /\ UNCHANGED <<kv, clean, chash, dur, emptied>>

Next == /\ steps < MaxSteps /\ steps' = steps + 1
        /\ \/ \E k \in Keys, v \in Vals : Update(k, v)
           \/ \E k \in Keys : Delete(k)
           \/ Commit \/ GC

Spec == Init /\ [][Next]_vars

\* every node of the last committed content is in storage (every state is a crash point)
Durable == NodesOf(dur) \subseteq store
=============================================================================
