------------------------------- MODULE MPTTxn -------------------------------
(***************************************************************************)
(* Child tries as transactions over a block trie (C03), design level.      *)
(*                                                                         *)
(*   tcs    : trie id -> content        (0 = the block trie, others are    *)
(*            children opened over it)                                     *)
(*   startc : child id -> content of the parent when the child was opened  *)
(*   status : child id -> "unused" | "open" | "merged" | "rejected" |      *)
(*            "discarded"                                                  *)
(*                                                                         *)
(* Contents follow MPT.tla.  Merge(c): no-op if the child equals the       *)
(* parent; rejected if the parent moved on since the child was opened;     *)
(* otherwise the parent takes the child's view.  (The implementation       *)
(* compares root hashes; at design level contents stand for roots.)        *)
(* With a history variable the same actions generate block scenarios for   *)
(* the executor (MPTTxn_gen*.cfg).                                         *)
(***************************************************************************)
EXTENDS MPT, Json

CONSTANTS Children, Depth, GenMode

VARIABLES tcs, startc, status, hist

xvars == <<content, tcs, startc, status, hist>>

Open(c)  == status[c] = "open"
LiveIds  == {0} \cup {c \in Children : Open(c)}

Rec(op, t, p, v) == [op |-> op, t |-> t, p |-> p, v |-> v]
Emit(h) == PrintT(<<"VERIF_HIST", ToJson([persist |-> TRUE, ops |-> <<[op |-> "round", t |-> 0, p |-> <<>>, v |-> "", ver |-> 1]>>
                                                         \o [i \in 1..Len(h) |-> [op |-> h[i].op, t |-> h[i].t, p |-> h[i].p, v |-> h[i].v, ver |-> 0]]
                                                         \o <<[op |-> "save", t |-> 0, p |-> <<>>, v |-> "", ver |-> 0]>>])>>)
Log(r) == IF GenMode
          THEN /\ Len(hist) < Depth /\ hist' = Append(hist, r) /\ (IF Len(hist') < Depth THEN TRUE ELSE Emit(hist'))
          ELSE hist' = hist

TInit == /\ content = EmptyContent
         /\ tcs = [t \in {0} \cup Children |-> EmptyContent]
         /\ startc = [c \in Children |-> EmptyContent]
         /\ status = [c \in Children |-> "unused"]
         /\ hist = <<>>

OpenChild(c) ==
  /\ status[c] = "unused"
  /\ \A d \in Children : d < c => status[d] # "unused"     \* symmetry: children are used in order
  /\ status' = [status EXCEPT ![c] = "open"]
  /\ tcs' = [tcs EXCEPT ![c] = tcs[0]]
  /\ startc' = [startc EXCEPT ![c] = tcs[0]]
  /\ Log(Rec("open", c, <<>>, ""))
  /\ UNCHANGED content

TIns(t, p, v) ==
  /\ t \in LiveIds
  /\ tcs' = [tcs EXCEPT ![t] = InsertResp(tcs[t], p, v).c]
  /\ Log(Rec("ins", t, p, v))
  /\ UNCHANGED <<content, startc, status>>

TDel(t, p) ==
  /\ t \in LiveIds
  /\ tcs' = [tcs EXCEPT ![t] = DeleteResp(tcs[t], p).c]
  /\ Log(Rec("del", t, p, ""))
  /\ UNCHANGED <<content, startc, status>>

Merge(c) ==
  /\ Open(c)
  /\ IF tcs[c] = tcs[0] THEN /\ status' = [status EXCEPT ![c] = "merged"] /\ tcs' = tcs
     ELSE IF tcs[0] # startc[c] THEN /\ status' = [status EXCEPT ![c] = "rejected"] /\ tcs' = tcs
     ELSE /\ status' = [status EXCEPT ![c] = "merged"] /\ tcs' = [tcs EXCEPT ![0] = tcs[c]]
  /\ Log(Rec("merge", c, <<>>, ""))
  /\ UNCHANGED <<content, startc>>

Discard(c) ==
  /\ Open(c)
  /\ status' = [status EXCEPT ![c] = "discarded"]
  /\ tcs' = tcs
  /\ Log(Rec("discard", c, <<>>, ""))
  /\ UNCHANGED <<content, startc>>

TNext ==
  \/ \E c \in Children : OpenChild(c) \/ Merge(c) \/ Discard(c)
  \/ \E t \in {0} \cup Children, p \in Paths : (\E v \in Values : TIns(t, p, v)) \/ TDel(t, p)

TSpec == TInit /\ [][TNext]_xvars

---------------------------------------------------------------------------
(* Structured exhaustive scenario family (generator): two direct inserts   *)
(* into the block trie, one child, every sequence of 3..4 operations in    *)
(* the child (overwrite and restore, split and collapse, ...), merge.      *)
SPath(i) == (CHOOSE q \in [1..Cardinality(Paths) -> Paths] : \A a, b \in 1..Cardinality(Paths) : a # b => q[a] # q[b])[i]
SNext ==
  \/ /\ Len(hist) < 2
     /\ \E v \in Values : /\ tcs' = [tcs EXCEPT ![0] = InsertResp(tcs[0], SPath(Len(hist) + 1), v).c]
                           /\ hist' = Append(hist, Rec("ins", 0, SPath(Len(hist) + 1), v))
     /\ UNCHANGED <<content, startc, status>>
  \/ /\ Len(hist) = 2
     /\ status' = [status EXCEPT ![1] = "open"] /\ tcs' = [tcs EXCEPT ![1] = tcs[0]] /\ startc' = [startc EXCEPT ![1] = tcs[0]]
     /\ hist' = Append(hist, Rec("open", 1, <<>>, "")) /\ UNCHANGED content
  \/ /\ Len(hist) \in 3..6 /\ Open(1)
     /\ \E p \in Paths :
           \/ \E v \in Values : /\ tcs' = [tcs EXCEPT ![1] = InsertResp(tcs[1], p, v).c] /\ hist' = Append(hist, Rec("ins", 1, p, v))
           \/ /\ tcs' = [tcs EXCEPT ![1] = DeleteResp(tcs[1], p).c] /\ hist' = Append(hist, Rec("del", 1, p, ""))
     /\ UNCHANGED <<content, startc, status>>
  \/ /\ Len(hist) \in 6..7 /\ Open(1)
     /\ status' = [status EXCEPT ![1] = "merged"] /\ tcs' = [tcs EXCEPT ![0] = tcs[1]]
     /\ hist' = Append(hist, Rec("merge", 1, <<>>, "")) /\ Emit(hist')
     /\ UNCHANGED <<content, startc>>
SSpecGen == TInit /\ [][SNext]_xvars

(* Structured exhaustive SIBLING family (generator): two direct inserts     *)
(* (any two paths, either order), child 1 does one operation and is merged, *)
(* child 2 -- opened afterwards, with its own node cache -- does one or two *)
(* operations and is discarded or merged.  With a path set that has a long  *)
(* common prefix this enumerates every way a later sibling can restructure  *)
(* (split, lift, merge of extensions) a node the earlier sibling created in *)
(* the same block.                                                          *)
AnyV == CHOOSE v \in Values : TRUE
ChildOp(c) ==
  \E p \in Paths :
     \/ \E v \in Values : /\ tcs' = [tcs EXCEPT ![c] = InsertResp(tcs[c], p, v).c] /\ hist' = Append(hist, Rec("ins", c, p, v))
     \/ /\ tcs' = [tcs EXCEPT ![c] = DeleteResp(tcs[c], p).c] /\ hist' = Append(hist, Rec("del", c, p, ""))
SNext3 ==
  \/ /\ Len(hist) < 2
     /\ \E p \in Paths \ DOMAIN tcs[0] :
           /\ tcs' = [tcs EXCEPT ![0] = InsertResp(tcs[0], p, AnyV).c] /\ hist' = Append(hist, Rec("ins", 0, p, AnyV))
     /\ UNCHANGED <<content, startc, status>>
  \/ /\ Len(hist) = 2
     /\ status' = [status EXCEPT ![1] = "open"] /\ tcs' = [tcs EXCEPT ![1] = tcs[0]] /\ startc' = [startc EXCEPT ![1] = tcs[0]]
     /\ hist' = Append(hist, Rec("open", 1, <<>>, "")) /\ UNCHANGED content
  \/ /\ Len(hist) = 3 /\ ChildOp(1) /\ UNCHANGED <<content, startc, status>>
  \/ /\ Len(hist) = 4
     /\ status' = [status EXCEPT ![1] = "merged"] /\ tcs' = [tcs EXCEPT ![0] = tcs[1]]
     /\ hist' = Append(hist, Rec("merge", 1, <<>>, "")) /\ UNCHANGED <<content, startc>>
  \/ /\ Len(hist) = 5
     /\ status' = [status EXCEPT ![2] = "open"] /\ tcs' = [tcs EXCEPT ![2] = tcs[0]] /\ startc' = [startc EXCEPT ![2] = tcs[0]]
     /\ hist' = Append(hist, Rec("open", 2, <<>>, "")) /\ UNCHANGED content
  \/ /\ Len(hist) \in 6..7 /\ Open(2) /\ ChildOp(2) /\ UNCHANGED <<content, startc, status>>
  \/ /\ Len(hist) \in 7..8 /\ Open(2)
     /\ \/ /\ status' = [status EXCEPT ![2] = "discarded"] /\ tcs' = tcs
           /\ hist' = Append(hist, Rec("discard", 2, <<>>, ""))
        \/ /\ status' = [status EXCEPT ![2] = "merged"] /\ tcs' = [tcs EXCEPT ![0] = tcs[2]]
           /\ hist' = Append(hist, Rec("merge", 2, <<>>, ""))
     /\ Emit(hist') /\ UNCHANGED <<content, startc>>
SSpecSib == TInit /\ [][SNext3]_xvars

---------------------------------------------------------------------------
\* isolation: an action on one trie changes at most that trie and (merge) the parent
Isolation ==
  [][\A t \in {0} \cup Children :
        tcs'[t] # tcs[t] =>
           \/ \E p \in Paths : (\E v \in Values : tcs'[t] = Put(tcs[t], p, v)) \/ tcs'[t] = Del(tcs[t], p)
           \/ (t = 0 /\ \E c \in Children : Open(c) /\ status'[c] = "merged" /\ tcs'[0] = tcs[c])
           \/ (t # 0 /\ status[t] = "unused" /\ tcs'[t] = tcs[0])]_xvars
\* a discarded child or a rejected merge leaves the parent exactly as it was
NoTrace ==
  [][\A c \in Children : (Open(c) /\ status'[c] \in {"discarded", "rejected"}) => tcs'[0] = tcs[0]]_xvars
\* a merge is applied only onto the content the child started from (no lost update)
NoLostUpdate ==
  [][\A c \in Children : (Open(c) /\ status'[c] = "merged" /\ tcs'[0] # tcs[0]) => tcs[0] = startc[c]]_xvars
TypeOKT == \A t \in {0} \cup Children : DOMAIN tcs[t] \subseteq Paths
View == <<tcs, startc, status>>
=============================================================================
