package main

import (
	"math/rand"

	"verifharness/exec"
	"verifharness/tr"
)

func init() { components["scstress"] = runSCStress }

func runSCStress(args []string) (map[string]any, error) {
	c := newCommon("scstress")
	c.fs.Parse(args)
	w, err := tr.New(*c.out, *c.shards)
	if err != nil {
		return nil, err
	}
	r := rand.New(rand.NewSource(*c.seed))
	for i := 0; i < *c.n; i++ {
		w.NextTrace()
		exec.RunSCStress(w, i+1, r, 6+r.Intn(40), 8, 32, 30)
	}
	if err := w.Close(); err != nil {
		return nil, err
	}
	return map[string]any{"traces": *c.n, "events": *c.n, "runs": *c.n, "samples": []string{}}, nil
}
