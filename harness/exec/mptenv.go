package exec

import (
	"bytes"
	"context"
	"errors"
	"fmt"
	"os"
	"runtime"
	"sort"
	"sync"

	"verifharness/bridge"

	"github.com/0chain/common/core/logging"
	"github.com/0chain/common/core/statecache"
	"github.com/0chain/common/core/util"
	"github.com/linxGnu/grocksdb"
	"go.uber.org/zap"
)

func init() {
	logging.Logger = zap.NewNop()
	logging.N2n = zap.NewNop()
}

var pdirSeq int

// NewTxnCache returns a fresh transaction cache over a fresh state cache.
func NewTxnCache() *statecache.TransactionCache {
	sc := statecache.NewStateCache()
	_, tc := statecache.NewBlockTxnCaches(sc, statecache.Block{Round: 1, Hash: "h1", PrevHash: "h0"})
	return tc
}

// TrieEnv is a real state trie on one of the store configurations.
type TrieEnv struct {
	Kind    string // mem | level | pndb | levelp
	Version int64
	DB      util.NodeDB
	Lower   util.NodeDB
	PDir    string
	Trie    *util.MerklePatriciaTrie
}

// NewTrieEnv builds an empty trie on the requested store configuration.
func NewTrieEnv(kind string, version int64) *TrieEnv {
	e := &TrieEnv{Kind: kind, Version: version}
	switch kind {
	case "mem":
		e.DB = util.NewMemoryNodeDB()
	case "level":
		e.Lower = util.NewMemoryNodeDB()
		e.DB = util.NewLevelNodeDB(util.NewMemoryNodeDB(), e.Lower, false)
	case "pndb":
		pdirSeq++
		e.PDir = fmt.Sprintf("stub-%d", pdirSeq)
		p, err := util.NewPNodeDB(e.PDir, "log")
		if err != nil {
			panic(err)
		}
		e.DB = p
	case "levelp":
		pdirSeq++
		e.PDir = fmt.Sprintf("stub-%d", pdirSeq)
		p, err := util.NewPNodeDB(e.PDir, "log")
		if err != nil {
			panic(err)
		}
		e.Lower = p
		e.DB = util.NewLevelNodeDB(util.NewMemoryNodeDB(), p, false)
	default:
		panic("unknown store kind " + kind)
	}
	e.Trie = util.NewMerklePatriciaTrie(e.DB, util.Sequence(version), nil, NewTxnCache())
	return e
}

// Close releases stub storage.
func (e *TrieEnv) Close() {
	if e.PDir != "" {
		grocksdb.DropStore(e.PDir)
	}
}

// RawGet returns the encoded form of the node stored under key, or nil.
func RawGet(db util.NodeDB) func(key []byte) []byte {
	return func(key []byte) []byte {
		n, err := db.GetNode(key)
		if err != nil || n == nil {
			return nil
		}
		return n.Encode()
	}
}

// ResClass maps an error of the trie API to the result classes of the specs.
func ResClass(err error) string {
	switch {
	case err == nil:
		return "ok"
	case errors.Is(err, util.ErrValueNotPresent):
		return "notpresent"
	case errors.Is(err, util.ErrNodeNotFound):
		return "nodenotfound"
	default:
		return "err"
	}
}

// Guard runs f and converts a panic into the result class "panic".
func Guard(f func() string) (res string) {
	defer func() {
		if r := recover(); r != nil {
			res = "panic"
			if panicLog {
				msg := fmt.Sprint(r)
				if len(msg) > 60 {
					msg = msg[:60]
				}
				panicMu.Lock()
				if !panicSeen[msg] && len(panicSeen) < 40 {
					panicSeen[msg] = true
					buf := make([]byte, 2048)
					n := runtime.Stack(buf, false)
					fmt.Fprintf(os.Stderr, "PANIC: %s\n%s\n", msg, buf[:n])
				}
				panicMu.Unlock()
			}
		}
	}()
	return f()
}

var (
	panicLog  = os.Getenv("VERIF_PANICLOG") != ""
	panicMu   sync.Mutex
	panicSeen = map[string]bool{}
)

// IterItems lists path/value pairs through the real Iterate.
func IterItems(t util.MerklePatriciaTrieI) (items []bridge.Item, res string) {
	res = Guard(func() string {
		err := t.Iterate(context.Background(), func(ctx context.Context, path util.Path, key util.Key, node util.Node) error {
			vn, ok := node.(*util.ValueNode)
			if !ok {
				return nil
			}
			items = append(items, bridge.Item{Path: append([]byte(nil), path...), Value: append([]byte(nil), vn.GetValueBytes()...)})
			return nil
		}, util.NodeTypeValueNode)
		if err != nil || len(t.GetRoot()) == 0 {
			return ResClass(err)
		}
		// the same walk visiting every node type, started explicitly at the root: it shows the same pairs, and every node it
		// shows is reported under the hash of its content
		var all []bridge.Item
		keysOK := true
		err = t.IterateFrom(context.Background(), t.GetRoot(), func(ctx context.Context, path util.Path, key util.Key, node util.Node) error {
			if vn, ok := node.(*util.ValueNode); ok {
				all = append(all, bridge.Item{Path: append([]byte(nil), path...), Value: append([]byte(nil), vn.GetValueBytes()...)})
			} else if node != nil && !bytes.Equal(key, node.GetHashBytes()) {
				keysOK = false
			}
			return nil
		}, util.NodeTypesAll)
		if err != nil {
			return ResClass(err)
		}
		if !keysOK || ItemsKey(all) != ItemsKey(items) {
			return "itermismatch"
		}
		return "ok"
	})
	return
}

// ItemsJSON renders items as [[pathchars, valtok], ...].
func ItemsJSON(items []bridge.Item) []any {
	out := make([]any, 0, len(items))
	for _, it := range items {
		out = append(out, []any{bridge.Chars(it.Path), bridge.Tok(it.Value)})
	}
	return out
}

// ItemsKey is a canonical string for a set of items.
func ItemsKey(items []bridge.Item) string {
	c := append([]bridge.Item(nil), items...)
	sort.Slice(c, func(i, j int) bool { return bytes.Compare(c[i].Path, c[j].Path) < 0 })
	var b bytes.Buffer
	for _, it := range c {
		fmt.Fprintf(&b, "%s=%s;", it.Path, bridge.Tok(it.Value))
	}
	return b.String()
}

// GetRaw performs a guarded lookup.
func GetRaw(t util.MerklePatriciaTrieI, p []byte) (res string, val []byte) {
	res = Guard(func() string {
		v, err := t.GetNodeValueRaw(util.Path(p))
		val = append([]byte(nil), v...)
		// the typed lookup answers like the raw one
		var tv util.SecureSerializableValue
		terr := t.GetNodeValue(util.Path(append([]byte(nil), p...)), &tv)
		if (terr == nil) != (err == nil) || (err == nil && !bytes.Equal(tv.Buffer, val)) {
			return "typedmismatch"
		}
		// the caller owns what a lookup hands out: writing into it must not reach the stored node
		for i := range v {
			v[i] ^= 0xa5
		}
		return ResClass(err)
	})
	return
}

// SweepResult summarises a content-addressing sweep over a whole node store.
type SweepResult struct {
	N       int
	KeysOK  bool
	RtOK    bool
	Classes map[string]bool
	BadKey  string
}

// SweepDB checks every (key,node) of a store: key = independent hash of the
// content; decode(encode(n)) reproduces encoding and hash through the real codec.
func SweepDB(db util.NodeDB, version int64) SweepResult {
	r := SweepResult{KeysOK: true, RtOK: true, Classes: map[string]bool{}}
	_ = db.Iterate(context.Background(), func(ctx context.Context, key util.Key, node util.Node) error {
		r.N++
		enc := node.Encode()
		bn, err := bridge.ParseMPTNode(enc)
		if err != nil || !bytes.Equal(bn.Hash(), key) || !bytes.Equal(bn.Encode(), enc) {
			r.KeysOK = false
			r.BadKey = fmt.Sprintf("%x", []byte(key))
		}
		if bn != nil {
			r.Classes[bn.ShapeClass(version)] = true
		}
		ok := Guard(func() string {
			n2, err := util.CreateNode(bytes.NewReader(enc))
			if err != nil {
				return "err"
			}
			if !bytes.Equal(n2.Encode(), enc) || !bytes.Equal(n2.GetHashBytes(), node.GetHashBytes()) || !bytes.Equal(n2.GetHashBytes(), key) {
				return "diff"
			}
			return "ok"
		})
		if ok != "ok" {
			r.RtOK = false
			r.BadKey = fmt.Sprintf("%x", []byte(key))
		}
		return nil
	})
	return r
}

// InsertScribbled inserts through the library's own value type and then rewrites the buffer it handed in (a caller that
// re-uses its scratch buffer): the trie keeps its own copy of a value.
func InsertScribbled(t util.MerklePatriciaTrieI, p, v []byte) (util.Key, error) {
	buf := append([]byte(nil), v...)
	r, err := t.Insert(util.Path(append([]byte(nil), p...)), &util.SecureSerializableValue{Buffer: buf})
	for i := range buf {
		buf[i] ^= 0xa5
	}
	return r, err
}

// Val wraps bytes as a trie value.
func Val(b []byte) util.MPTSerializable {
	return &util.SecureSerializableValue{Buffer: b}
}
