package main

import (
	"bufio"
	"bytes"
	"encoding/json"
	"math/rand"
	"os"

	"verifharness/exec"
	"verifharness/tr"
)

func init() { components["nodedb"] = runNodeDB }

func runNodeDB(args []string) (map[string]any, error) {
	c := newCommon("nodedb")
	c.fs.Parse(args)
	w, err := tr.New(*c.out, *c.shards)
	if err != nil {
		return nil, err
	}
	st := &exec.NStats{Distinct: map[string]bool{}}
	tid, nTLC := 0, 0
	if *c.hist != "" {
		f, err := os.Open(*c.hist)
		if err != nil {
			return nil, err
		}
		sc := bufio.NewScanner(f)
		sc.Buffer(make([]byte, 1<<20), 1<<26)
		for sc.Scan() {
			line := bytes.TrimSpace(sc.Bytes())
			if len(line) == 0 {
				continue
			}
			var h exec.NHist
			if err := json.Unmarshal(line, &h); err != nil {
				return nil, err
			}
			tid++
			nTLC++
			exec.RunNodeDB(w, st, tid, h)
		}
		f.Close()
	}
	r := rand.New(rand.NewSource(*c.seed))
	for i := 0; i < *c.n; i++ {
		tid++
		exec.RunNodeDB(w, st, tid, exec.GenNodeDB(r))
	}
	if err := w.Close(); err != nil {
		return nil, err
	}
	return map[string]any{"traces": st.Traces, "events": st.Events, "tlc_histories": nTLC, "go_histories": *c.n, "panics": st.Panics,
		"distinct_signatures": len(st.Distinct), "samples": w.Samples}, nil
}
