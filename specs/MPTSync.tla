------------------------------- MODULE MPTSync -------------------------------
(***************************************************************************)
(* Missing nodes and sync repair of the state trie (C17), at term level.   *)
(* A node is identified by its POSITION: the path consumed from the root   *)
(* to reach it (unique per node of the canonical trie Canon(content)).     *)
(*                                                                         *)
(*   content : the full content                                            *)
(*   absent  : set of positions of nodes missing from the store            *)
(*                                                                         *)
(* Oracle operators:                                                       *)
(*   Positions(term)        all node positions                             *)
(*   Frontier(term, absent) absent nodes reachable through present ones    *)
(*   WalkAbs(term, p, absent) lookup result on the partial store           *)
(* With GenMode the module emits every (content, removal set) of its scope *)
(* as a plan for the executor.                                             *)
(***************************************************************************)
EXTENDS MPT, Json

CONSTANTS Contents,   \* set of contents (functions path -> value) of the scope
          GenMode

VARIABLES absent, phase

svars == <<content, absent, phase>>

RECURSIVE PositionsAt(_, _)
PositionsAt(term, pre) ==
  CASE term.t = "L" -> {pre}
    [] term.t = "E" -> {pre} \cup PositionsAt(term.kid, pre \o term.path)
    [] term.t = "F" -> {pre} \cup UNION {PositionsAt(term.kids[ch], Append(pre, ch)) : ch \in DOMAIN term.kids}
    [] OTHER -> {}
Positions(term) == PositionsAt(term, <<>>)

RECURSIVE FrontierAt(_, _, _)
FrontierAt(term, pre, abs) ==
  IF pre \in abs THEN {pre}
  ELSE CASE term.t = "E" -> FrontierAt(term.kid, pre \o term.path, abs)
         [] term.t = "F" -> UNION {FrontierAt(term.kids[ch], Append(pre, ch), abs) : ch \in DOMAIN term.kids}
         [] OTHER -> {}
Frontier(term, abs) == IF term = Nil THEN {} ELSE FrontierAt(term, <<>>, abs)

NotFound == "#nodenotfound"
RECURSIVE WalkAbsAt(_, _, _, _)
\* result of looking up suffix p below the node `term` at position pre: value, NoVal, or NotFound
WalkAbsAt(term, pre, p, abs) ==
  IF pre \in abs THEN NotFound
  ELSE CASE term.t = "L" -> IF term.path = p THEN term.val ELSE NoVal
         [] term.t = "E" -> IF Len(p) >= Len(term.path) /\ Take(p, Len(term.path)) = term.path
                            THEN WalkAbsAt(term.kid, pre \o term.path, Drop(p, Len(term.path)), abs)
                            ELSE NoVal
         [] term.t = "F" -> IF p = <<>> THEN term.val
                            ELSE IF p[1] \in DOMAIN term.kids
                                 THEN WalkAbsAt(term.kids[p[1]], Append(pre, p[1]), Drop(p, 1), abs)
                                 ELSE NoVal
         [] OTHER -> NoVal
WalkAbs(term, p, abs) == IF term = Nil THEN NoVal ELSE WalkAbsAt(term, <<>>, p, abs)

---------------------------------------------------------------------------
(* design / generator: choose a content, remove any set of non-root nodes  *)

SInit == content \in Contents /\ absent = {} /\ phase = "full"

Remove ==
  /\ phase = "full"
  /\ \E A \in SUBSET (Positions(Canon(content)) \ {<<>>}) :
        /\ absent' = A
        /\ (~GenMode \/ PrintT(<<"VERIF_HIST", ToJson([init |-> Pairs(content), absent |-> A])>>))
  /\ phase' = "partial"
  /\ UNCHANGED content

Repair == phase = "partial" /\ absent' = {} /\ phase' = "repaired" /\ UNCHANGED content

SNext == Remove \/ Repair
SSpec == SInit /\ [][SNext]_svars

\* sanity of the oracle: the frontier is a subset of the removed set, it is empty exactly when nothing
\* reachable is missing, every removed node lies below (or is) a frontier node, and a lookup either
\* fails or returns what the full trie holds
FrontierOK ==
  LET T == Canon(content) F == Frontier(T, absent) IN
  /\ F \subseteq absent
  /\ (F = {}) = (absent = {})
  /\ \A a \in absent : \E f \in F : Len(f) <= Len(a) /\ Take(a, Len(f)) = f
LookupOK ==
  LET T == Canon(content) IN
  \A p \in DOMAIN content : WalkAbs(T, p, absent) \in {NotFound, content[p]}
RepairedOK == phase = "repaired" => \A p \in DOMAIN content : WalkAbs(Canon(content), p, absent) = content[p]
=============================================================================
