SPECIFICATION CSpec
CONSTANTS
  Paths = {}
  Values = {}
CONSTRAINT Mark
POSTCONDITION Post
CHECK_DEADLOCK FALSE
