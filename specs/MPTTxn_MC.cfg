SPECIFICATION TSpec
CONSTANTS
  Paths <- TPaths
  Values <- TValues
  Children <- TChildren
  Depth = 0
  GenMode = FALSE
INVARIANT TypeOKT
PROPERTIES Isolation NoTrace NoLostUpdate
VIEW View
CHECK_DEADLOCK FALSE
