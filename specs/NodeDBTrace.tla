---------------------------- MODULE NodeDBTrace ----------------------------
(***************************************************************************)
(* Trace validation of the real MemoryNodeDB / PNodeDB / LevelNodeDB        *)
(* objects against NodeDB.tla (deterministic mode).  Every event carries    *)
(* the operation, its result and the full projected state (keys present in  *)
(* each plain store, read directly; the DeletedNodes records).              *)
(*                                                                         *)
(* Two kinds of deviations:                                                *)
(*   C03 mechanism (flags without prefix): read-through of get/multi-get,   *)
(*     a put is visible through the handle it went through, an operation    *)
(*     through a handle changes no store outside Writable(handle) (LAYER    *)
(*     ISOLATION), stored nodes are independent copies;                     *)
(*   drift-* : the code no longer does what the specification says it does  *)
(*     where no listed property promises that behaviour (delete bookkeeping,*)
(*     iteration multiplicities, size).  Reported as SPEC-DRIFT, never as a *)
(*     violation.                                                           *)
(***************************************************************************)
EXTENDS NodeDB, IOUtils

Trace == ndJsonDeserialize(IOEnv.TRACE)
VARIABLES l, bad, nbad, ntr
tvars == <<mem, cur, prev, prop, delrec, topo, hist, last, l, bad, nbad, ntr>>
MaxBad == 40
KeepBad(bd, op, fl, dv) == Cardinality({b \in bd : b[3] = op /\ b[4] = fl /\ b[5] = dv}) < 6 /\ Cardinality(bd) < 40 * MaxBad
ToSet(s) == {s[i] : i \in DOMAIN s}
Flag(cond, name) == IF cond THEN {} ELSE {name}

ObsMem(e) == [s \in Stores |-> ToSet(e.state[s])]
ObsRec(e) == [lv \in Levels |-> ToSet(e.delrec[lv])]

\* <<next [mem, delrec, cur, prev, prop], flags>>
Same == [mem |-> mem, delrec |-> delrec, cur |-> cur, prev |-> prev, prop |-> prop]
WithS(S) == [Same EXCEPT !.mem = S.mem, !.delrec = S.delrec]

StateFlags(e, N, h) ==
  LET om == ObsMem(e) IN
       \* a store outside Writable(h) changed: the layer below was touched
       Flag(\A s \in Stores \ Writable(h) : om[s] = mem[s], "layerisolation")
  \cup Flag(\A s \in Stores : s \notin Writable(h) \/ om[s] = N.mem[s], "drift-state")
  \cup Flag(ObsRec(e) = N.delrec, "drift-delrec")
  \cup Flag(e.encOK, "putalias")

ReadFlags(e) == Flag(\A s \in Stores : ObsMem(e)[s] = mem[s], "layerisolation") \cup Flag(e.encOK, "putalias")

Step(e) ==
  CASE e.op = "reset" ->
         <<[mem |-> [s \in Stores |-> {}], delrec |-> [lv \in Levels |-> {}],
            cur |-> [lv \in Levels |-> IF lv = "l1" THEN e.topo[1] ELSE e.topo[3]],
            prev |-> [lv \in Levels |-> IF lv = "l1" THEN e.topo[2] ELSE e.topo[4]],
            prop |-> [lv \in Levels |-> IF lv = "l1" THEN e.prop1 ELSE e.prop2]], {}>>
    [] e.op = "get" ->
         <<Same, Flag(e.found = GetResp(mem, e.h, e.ks[1]), "readthrough") \cup ReadFlags(e)>>
    [] e.op = "mget" ->
         LET r == MultiGetResp(mem, e.h, e.ks) IN
         <<Same, Flag(e.found = r.found /\ e.err = r.err, "readthrough") \cup ReadFlags(e)>>
    [] e.op = "iter" ->
         <<Same, Flag({<<x[1], x[2]>> : x \in ToSet(e.visits)} = IterResp(mem, e.h), "drift-iter") \cup ReadFlags(e)>>
    [] e.op = "size" ->
         <<Same, Flag(e.n = SizeOf(mem, e.h), "drift-size") \cup ReadFlags(e)>>
    [] e.op \in {"put", "mput"} ->
         LET N == WithS(PutAll(S0, e.h, e.ks, 1)) IN
         <<N, Flag(e.res = "ok", "res") \cup StateFlags(e, N, e.h)
              \* what went in through h is visible through h
              \cup Flag(\A i \in 1..Len(e.ks) : \E s \in Readable(e.h) : e.ks[i] \in ObsMem(e)[s], "putvisible")>>
    [] e.op \in {"del", "mdel"} ->
         LET N == WithS(DelAll(S0, e.h, e.ks, 1)) IN
         <<N, Flag(e.res = "ok", "res") \cup StateFlags(e, N, e.h)>>
    [] e.op = "merge" ->
         LET N == WithS(PutAll(S0, e.h, SetToSeq(MergeKeys(mem, e.h2)), 1)) IN
         <<N, Flag(e.res = "ok", "res") \cup StateFlags(e, N, e.h)>>
    [] e.op = "rebase" ->
         <<[Same EXCEPT !.cur[e.h] = e.h2, !.prev[e.h] = e.h2], ReadFlags(e)>>
    [] e.op = "setprev" ->
         <<[Same EXCEPT !.prev[e.h] = e.h2], ReadFlags(e)>>
    [] OTHER -> <<Same, {"unknown-op"}>>

TraceInit ==
  /\ mem = [s \in Stores |-> {}] /\ delrec = [lv \in Levels |-> {}]
  /\ cur = [lv \in Levels |-> "m1"] /\ prev = [lv \in Levels |-> "m1"] /\ prop = [lv \in Levels |-> FALSE]
  /\ topo = [c1 |-> "m1", p1 |-> "m1", c2 |-> "m1", p2 |-> "m1"] /\ hist = <<>> /\ last = [op |-> "init"]
  /\ l = 1 /\ bad = {} /\ nbad = 0 /\ ntr = 0

TraceNext ==
  /\ l <= Len(Trace)
  /\ LET e == Trace[l]
         r == Step(e)
         N == r[1]
         f == r[2]
     IN  \* the model follows the OBSERVED stores after a deviation so that one deviation is reported once
         /\ mem' = IF e.op = "reset" THEN N.mem ELSE ObsMem(e)
         /\ delrec' = IF e.op = "reset" THEN N.delrec ELSE ObsRec(e)
         /\ cur' = N.cur /\ prev' = N.prev /\ prop' = N.prop
         /\ UNCHANGED <<topo, hist, last>>
         /\ l' = l + 1 /\ ntr' = IF e.op = "reset" THEN ntr + 1 ELSE ntr
         /\ nbad' = IF f = {} THEN nbad ELSE nbad + 1
         /\ bad' = IF f = {} \/ ~KeepBad(bad, e.op, f, {}) THEN bad ELSE bad \cup {<<e.tid, l, e.op, f, {}>>}
TraceSpec == TraceInit /\ [][TraceNext]_tvars
Report == l <= Len(Trace) \/ PrintT(<<"VERIF_RESULT", l - 1, ntr, nbad, bad>>)
=============================================================================
