----------------------------- MODULE StateCache -----------------------------
(***************************************************************************)
(* Block / transaction / state cache of 0chain/common (core/statecache).   *)
(* Property-level specification (C06, C07):                                *)
(*                                                                         *)
(*   prev      : block hash -> previous block hash (the block tree)        *)
(*   bchash    : block-cache object -> hash,  bcprev: object -> prev hash  *)
(*   txblock   : transaction-cache object -> block-cache object            *)
(*   tw        : txn object   -> (key -> value | Tomb)   uncommitted       *)
(*   bw        : block object -> (key -> value | Tomb)   uncommitted       *)
(*   committed : set of block hashes whose first Commit has happened       *)
(*   cw        : hash -> (key -> value | Tomb)  what that commit published *)
(*   closed    : block objects that were committed (not used afterwards)   *)
(*   memo      : key -> set of hashes for which the implementation may     *)
(*               hold an entry (ghost; used only for the capacity flag)    *)
(*                                                                         *)
(* Values are immutable strings here.  The executor hands mutable values   *)
(* in and mutates everything it hands in or receives; since no action of   *)
(* this specification reacts to that, any visible effect is a deviation    *)
(* (C07 "values are never shared").                                        *)
(***************************************************************************)
EXTENDS Naturals, Sequences, FiniteSets, TLC

Tomb == "#tomb"
Miss == "#miss"
NoHash == "#none"

EmptyMap == [k \in {} |-> Miss]
MapPut(m, k, v) == [x \in (DOMAIN m) \cup {k} |-> IF x = k THEN v ELSE m[x]]
\* b overrides a
MapMerge(a, b) == [x \in (DOMAIN a) \cup (DOMAIN b) |-> IF x \in DOMAIN b THEN b[x] ELSE a[x]]

Answer(x) == IF x = Tomb THEN Miss ELSE x

\* S is a record with the fields listed above.
RECURSIVE WalkH(_, _, _, _)
\* the answer the block tree determines for key k at hash h, as far as it is
\* published: the closest committed write on the chain of committed blocks.
WalkH(S, h, k, fuel) ==
  IF fuel = 0 \/ h \notin S.committed THEN Miss
  ELSE IF k \in DOMAIN S.cw[h] THEN S.cw[h][k]
  ELSE IF h \in DOMAIN S.prev THEN WalkH(S, S.prev[h], k, fuel - 1)
  ELSE Miss

Fuel(S) == Cardinality(S.committed) + 1

TruthH(S, h, k) == Answer(WalkH(S, h, k, Fuel(S)))
TruthB(S, b, k) == IF k \in DOMAIN S.bw[b] THEN Answer(S.bw[b][k])
                   ELSE TruthH(S, S.bcprev[b], k)
TruthT(S, t, k) == IF k \in DOMAIN S.tw[t] THEN Answer(S.tw[t][k])
                   ELSE TruthB(S, S.txblock[t], k)

\* hashes visited by the walk from h until the answer for k is found
RECURSIVE ChainTo(_, _, _, _)
ChainTo(S, h, k, fuel) ==
  IF fuel = 0 \/ h \notin S.committed THEN {}
  ELSE IF k \in DOMAIN S.cw[h] THEN {h}
  ELSE IF h \in DOMAIN S.prev THEN {h} \cup ChainTo(S, S.prev[h], k, fuel - 1)
  ELSE {h}

\* Rule for every lookup (C06):  result = Miss  \/  result = Truth.
HitOK(truth, result) == result = Miss \/ result = truth
\* (C07) committed writes are found from descendant contexts: if the truth is a
\* value, the lookup must hit (asserted only inside the capacity limits).
MustHitOK(truth, result) == truth = Miss \/ result = truth

---------------------------------------------------------------------------
(* Transitions on S (pure operators, shared by design, generator and trace)*)

NewBlock(S, b, h, p) ==
  [S EXCEPT !.bchash = MapPut(@, b, h), !.bcprev = MapPut(@, b, p),
            !.bw = MapPut(@, b, EmptyMap),
            !.prev = IF h \in DOMAIN @ THEN @ ELSE MapPut(@, h, p)]
NewTxn(S, t, b) == [S EXCEPT !.txblock = MapPut(@, t, b), !.tw = MapPut(@, t, EmptyMap)]
TxnSet(S, t, k, v) == [S EXCEPT !.tw[t] = MapPut(@, k, v)]
TxnRemove(S, t, k) == [S EXCEPT !.tw[t] = MapPut(@, k, Tomb)]
TxnCommit(S, t) ==
  [S EXCEPT !.bw[S.txblock[t]] = MapMerge(@, S.tw[t]), !.tw[t] = EmptyMap]
BlockSet(S, b, k, v) == [S EXCEPT !.bw[b] = MapPut(@, k, v)]
BlockCommit(S, b) ==
  LET h == S.bchash[b] IN
  IF h \in S.committed THEN [S EXCEPT !.closed = @ \cup {b}]   \* second commit of a hash is ignored
  ELSE [S EXCEPT !.committed = @ \cup {h}, !.cw = MapPut(@, h, S.bw[b]),
                 !.bw[b] = EmptyMap, !.closed = @ \cup {b},
                 !.memo = [k \in (DOMAIN @) \cup (DOMAIN S.bw[b]) |->
                              (IF k \in DOMAIN @ THEN @[k] ELSE {}) \cup
                              (IF k \in DOMAIN S.bw[b] THEN {h} ELSE {})]]
SetBlockHash(S, b, h) ==
  [S EXCEPT !.bchash = MapPut(@, b, h),
            !.prev = IF h \in DOMAIN @ THEN @ ELSE MapPut(@, h, S.bcprev[b])]
\* a state-level lookup at hash h that finds an entry further up the chain
\* leaves a memoised entry for h (ghost, used only by the capacity flag)
NoteLookup(S, h, k) ==
  IF WalkH(S, h, k, Fuel(S)) = Miss THEN S
  ELSE [S EXCEPT !.memo = MapPut(@, k, (IF k \in DOMAIN @ THEN @[k] ELSE {}) \cup {h})]
RemoveKey(S, k) == [S EXCEPT !.removed = @ \cup {k}]

InitS == [prev |-> EmptyMap, bchash |-> EmptyMap, bcprev |-> EmptyMap, txblock |-> EmptyMap,
          tw |-> EmptyMap, bw |-> EmptyMap, committed |-> {}, cw |-> EmptyMap, closed |-> {},
          memo |-> EmptyMap, removed |-> {}]

\* Deviation flag (known finding C06/EvictCloser): more distinct per-key
\* entries than the per-key LRU can hold have been created for k.
EvictCloser(S, k, cap) == k \in DOMAIN S.memo /\ Cardinality(S.memo[k]) > cap

---------------------------------------------------------------------------
(* Design-level specification over a fixed small scope.                    *)

CONSTANTS Hashes, PrevFn, BCs, BCHashFn, TXs, TXBlockFn, Keys, Vals

VARIABLES S, last

svars == <<S, last>>

Init == /\ S = [InitS EXCEPT !.prev = PrevFn, !.bchash = BCHashFn,
                             !.bcprev = [b \in BCs |-> PrevFn[BCHashFn[b]]],
                             !.txblock = TXBlockFn,
                             !.tw = [t \in TXs |-> EmptyMap], !.bw = [b \in BCs |-> EmptyMap]]
        /\ last = [op |-> "init"]

OpenBC(b) == b \notin S.closed
OpenTX(t) == OpenBC(S.txblock[t])

ATxnSet(t, k, v)  == OpenTX(t) /\ S' = TxnSet(S, t, k, v) /\ last' = [op |-> "tset", t |-> t, k |-> k, v |-> v]
ATxnRemove(t, k)  == OpenTX(t) /\ S' = TxnRemove(S, t, k) /\ last' = [op |-> "tremove", t |-> t, k |-> k]
ATxnCommit(t)     == OpenTX(t) /\ S' = TxnCommit(S, t) /\ last' = [op |-> "tcommit", t |-> t]
ABlockSet(b, k, v) == OpenBC(b) /\ S' = BlockSet(S, b, k, v) /\ last' = [op |-> "bset", b |-> b, k |-> k, v |-> v]
ABlockCommit(b)   == OpenBC(b) /\ S' = BlockCommit(S, b) /\ last' = [op |-> "bcommit", b |-> b]
ATxnGet(t, k)     == OpenTX(t) /\ S' = S /\ last' = [op |-> "tget", t |-> t, k |-> k, truth |-> TruthT(S, t, k)]
ABlockGet(b, k)   == OpenBC(b) /\ S' = S /\ last' = [op |-> "bget", b |-> b, k |-> k, truth |-> TruthB(S, b, k)]
AStateGet(h, k)   == S' = NoteLookup(S, h, k) /\ last' = [op |-> "sget", h |-> h, k |-> k, truth |-> TruthH(S, h, k)]

Next ==
  \/ \E t \in TXs, k \in Keys : (\E v \in Vals : ATxnSet(t, k, v)) \/ ATxnRemove(t, k) \/ ATxnGet(t, k)
  \/ \E t \in TXs : ATxnCommit(t)
  \/ \E b \in BCs, k \in Keys : (\E v \in Vals : ABlockSet(b, k, v)) \/ ABlockGet(b, k)
  \/ \E b \in BCs : ABlockCommit(b)
  \/ \E h \in Hashes, k \in Keys : AStateGet(h, k)

Spec == Init /\ [][Next]_svars

---------------------------------------------------------------------------
(* Invariants of the property-level model (visibility rules of C06/C07).   *)

\* a transaction's uncommitted writes are invisible to its block and to other transactions
TxnPrivate ==
  \A t \in TXs, k \in Keys :
     k \in DOMAIN S.tw[t] =>
        /\ TruthB(S, S.txblock[t], k) = TruthB([S EXCEPT !.tw[t] = EmptyMap], S.txblock[t], k)
        /\ \A u \in TXs \ {t} : TruthT(S, u, k) = TruthT([S EXCEPT !.tw[t] = EmptyMap], u, k)
\* a block's uncommitted writes are invisible to every other block and to state-level lookups
BlockPrivate ==
  \A b \in BCs, k \in Keys :
     k \in DOMAIN S.bw[b] =>
        /\ \A h \in Hashes : TruthH(S, h, k) = TruthH([S EXCEPT !.bw[b] = EmptyMap], h, k)
        /\ \A c \in BCs \ {b} : TruthB(S, c, k) = TruthB([S EXCEPT !.bw[b] = EmptyMap], c, k)
\* writes on sibling forks or descendants never influence the answer at a block:
\* the answer at h depends only on cw of the chain of h
RECURSIVE Ancestors(_, _)
Ancestors(h, fuel) == IF fuel = 0 \/ h \notin DOMAIN S.prev THEN {h} ELSE {h} \cup Ancestors(S.prev[h], fuel - 1)
ForkIndependent ==
  \A h \in Hashes, k \in Keys :
     LET anc == Ancestors(h, Cardinality(Hashes))
         S2 == [S EXCEPT !.cw = [x \in DOMAIN @ |-> IF x \in anc THEN @[x] ELSE EmptyMap]]
     IN  TruthH(S, h, k) = TruthH(S2, h, k)
\* once committed, a block's published writes never change
CommitStable == [][\A h \in S.committed : S'.cw[h] = S.cw[h]]_svars
=============================================================================
