package main

import (
	"bufio"
	"bytes"
	"encoding/json"
	"math/rand"
	"os"

	"verifharness/exec"
	"verifharness/tr"
)

func init() { components["sync"] = runSync }

func runSync(args []string) (map[string]any, error) {
	c := newCommon("sync")
	c.fs.Parse(args)
	w, err := tr.New(*c.out, *c.shards)
	if err != nil {
		return nil, err
	}
	st := &exec.SyncStats{Distinct: map[string]bool{}}
	r := rand.New(rand.NewSource(*c.seed))
	tid, nTLC := 0, 0
	if *c.hist != "" {
		f, err := os.Open(*c.hist)
		if err != nil {
			return nil, err
		}
		sc := bufio.NewScanner(f)
		sc.Buffer(make([]byte, 1<<20), 1<<26)
		for sc.Scan() {
			line := bytes.TrimSpace(sc.Bytes())
			if len(line) == 0 {
				continue
			}
			var p exec.SyncPlan
			if err := json.Unmarshal(line, &p); err != nil {
				return nil, err
			}
			if len(p.BuildVers) == 0 {
				switch nTLC % 3 {
				case 1:
					p.BuildVers = []int64{1, 2}
				case 2:
					p.BuildVers = []int64{2, 1}
					p.RepairVer = 7
				}
				p.Extra = nTLC%4 == 3
			}
			tid++
			nTLC++
			exec.RunSync(w, st, tid, p, r)
		}
		f.Close()
	}
	for i := 0; i < *c.n; i++ {
		tid++
		exec.RunSync(w, st, tid, exec.GenSyncPlan(r), r)
	}
	// large-scope plans (donor stores of several hundred nodes), one per repair mechanism
	if *c.n > 0 {
		for i, via := range []string{"mergestate", "mergedb", "mergedb"} {
			tid++
			exec.RunSync(w, st, tid, exec.GenSyncPlanBig(r, via, i == 2), r)
		}
	}
	if err := w.Close(); err != nil {
		return nil, err
	}
	return map[string]any{"traces": st.Traces, "events": st.Events, "tlc_histories": nTLC, "go_histories": *c.n, "panics": st.Panics,
		"distinct_plans": len(st.Distinct), "samples": w.Samples}, nil
}
