------------------------------ MODULE WMPTPath ------------------------------
(***************************************************************************)
(* Partial weighted trie built from a path export (C12), content level.    *)
(*                                                                         *)
(*   kv   : content of the source trie (and, by the property, of the        *)
(*          partial trie as far as the requested keys are concerned)       *)
(*   req  : requested keys of the export                                   *)
(*                                                                         *)
(* The property says the partial trie is indistinguishable from the source *)
(* through Root() and Weight(), initially and after any sequence of        *)
(* updates/deletes of requested keys applied to both.  At content level    *)
(* both are functions of kv, so the specification is: one content, two     *)
(* observers that must always agree with it.  With GenMode the module      *)
(* emits every scenario of its scope (source content, collapse level,      *)
(* requested set incl. absent keys and an optional block of 11 absent      *)
(* filler keys that pushes the request over the parallel-collection        *)
(* threshold, operation sequence) for the executor.                        *)
(*                                                                         *)
(* Uni = "shape": ranks 0..15 are the 16 keys whose nibbles at four        *)
(* consecutive positions range over {0,1} (executed once with the window   *)
(* at the head and once at the tail of the 64-nibble key), so that the     *)
(* enumeration of contents is an enumeration of local trie SHAPES:         *)
(* branch below branch, one-/two-nibble extension, leaf rests of length    *)
(* 0, 1, 2 and ~60 -- the case analysis of export, import and of the       *)
(* merge a delete causes depends on exactly these.                         *)
(***************************************************************************)
EXTENDS WMPT, Integers

CONSTANTS PKeys,     \* keys that may be present (ranks into the executor's key universe)
          AKeys,     \* keys that are never present (>= 100)
          MaxOps,
          Uni,       \* executor key universe the ranks refer to: "w" (prefix universe) or "shape" (see below)
          MaxInit,   \* bound on the size of the source content
          MaxReq,    \* bound on the number of requested keys
          Bigs,      \* whether the request is padded with 11 absent filler keys
          InMemory,  \* include the source trie that was never committed (level -1)
          Levels     \* collapse levels: L = Commit(L), 100+L = Commit(L) and re-opened from (root, weight)
VARIABLES req, level, big, nops, init

pvars == <<kv, dur, ck, st, hist, last, req, level, big, nops, init>>

ValOf(k) == "bb#" \o ToString(k)
WOf(v) == 2

PInit ==
  /\ \E D \in SUBSET PKeys : Cardinality(D) <= MaxInit /\ kv = [k \in D |-> [v |-> "a#" \o ToString(k), w |-> 1]]
  /\ init = kv
  /\ req \in {R \in SUBSET (PKeys \cup AKeys) : Cardinality(R) <= MaxReq}
  /\ level \in Levels \cup (IF InMemory THEN {-1} ELSE {})
  /\ big \in Bigs
  /\ nops = 0 /\ hist = <<>> /\ last = "init"
  /\ dur = EmptyKV /\ ck = EmptyKV /\ st = [clean |-> TRUE, saved |-> FALSE, mark |-> FALSE, commits |-> 0, gcs |-> 0]

Plan == [uni |-> Uni, init |-> {<<k, init[k].v>> : k \in DOMAIN init}, level |-> level, req |-> req, big |-> big, ops |-> hist]
Emit == PrintT(<<"VERIF_HIST", ToJson(Plan)>>)

PUpdate(k) ==
  /\ k \in req /\ nops < MaxOps
  /\ kv' = KPut(kv, k, ValOf(k), 2)
  /\ hist' = Append(hist, [op |-> "update", k |-> k, v |-> ValOf(k), level |-> 0])
  /\ nops' = nops + 1 /\ last' = "update"
  /\ UNCHANGED <<dur, ck, st, req, level, big, init>>
PDelete(k) ==
  /\ k \in req /\ nops < MaxOps
  /\ kv' = DeleteResp(kv, k).m
  /\ hist' = Append(hist, [op |-> "delete", k |-> k, v |-> "", level |-> 0])
  /\ nops' = nops + 1 /\ last' = "delete"
  /\ UNCHANGED <<dur, ck, st, req, level, big, init>>

PNext == \E k \in PKeys \cup AKeys : PUpdate(k) \/ PDelete(k)
PSpec == PInit /\ [][PNext]_pvars

\* every state is a complete scenario (the operations so far): emit it
EmitAll == ~GenMode \/ Emit
\* only requested keys ever change
OnlyRequested == \A k \in (DOMAIN kv \cup DOMAIN init) \ req :
                    (k \in DOMAIN kv) = (k \in DOMAIN init) /\ (k \in DOMAIN kv => kv[k] = init[k])
=============================================================================
