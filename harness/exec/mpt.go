package exec

import (
	"bufio"
	"bytes"
	"context"
	"encoding/json"
	"fmt"
	"math/rand"
	"os"
	"sort"
	"strings"

	"verifharness/bridge"
	"verifharness/tr"

	"github.com/0chain/common/core/util"
	"github.com/linxGnu/grocksdb"
)

// MOp is one operation of an mpt history.
type MOp struct {
	Op string   `json:"op"`
	P  []string `json:"p"`
	V  string   `json:"v,omitempty"`
}

func joinChars(p []string) []byte {
	var b []byte
	for _, c := range p {
		b = append(b, c...)
	}
	return b
}

// MPTStats collects coverage numbers of an mpt run.
type MPTStats struct {
	Traces     int
	Events     int
	Contents   map[string]bool
	RootGroups map[string]map[int]bool // cfgclass|itemsKey -> root ids
	Classes    map[string]bool
	Panics     int
}

var bigValue []byte

// MaxValBudget is the number of generated histories that still get values of exactly the largest accepted size.
var MaxValBudget int

// MaxValToken names a value of util.MPTMaxAllowableNodeSize bytes (a run of c).
func MaxValToken(c byte) string { return fmt.Sprintf("@L%d.%c", util.MPTMaxAllowableNodeSize, c) }

// ValBytes turns a value token of a generator into bytes.
func ValBytes(tok string) []byte {
	if strings.HasPrefix(tok, "@L") {
		var n int
		var c byte
		if _, err := fmt.Sscanf(tok, "@L%d.%c", &n, &c); err == nil {
			return bytes.Repeat([]byte{c}, n)
		}
	}
	if len(tok) > 1 && tok[0] == 'x' {
		var out []byte
		fmt.Sscanf(tok[1:], "%x", &out)
		return out
	}
	return []byte(tok)
}

// MPTConfig describes a store configuration of one trace.
type MPTConfig struct {
	Store   string // mem | level | pndb | levelp
	Version int64
	Init    [][2]string // pre-existing lower content (level configs): path, valuetoken
	InitVer int64       // version at which Init was built
	Cold    bool        // a fresh trie object (cold node cache) for every operation
}

// MHist is one history: optional start content (built silently through the
// real Insert, in sorted order) followed by operations.
type MHist struct {
	Init []json.RawMessage `json:"init"`
	Ops  []MOp             `json:"ops"`
}

// RunMPTHistory executes one history on one configuration and emits its trace.
func RunMPTHistory(w *tr.Writer, in *tr.Interner, st *MPTStats, tid int, cfgIdx int, cfg MPTConfig, h MHist, shapeEvery int) {
	ops := h.Ops
	if len(cfg.Init) > 0 && cfg.InitVer != cfg.Version {
		// over lower content of an older version the history ends by deleting that content key by key (rotating start):
		// every collapse / lift / merge then involves nodes that were created at another version and live in the lower store
		ops = append([]MOp(nil), ops...)
		for i := range cfg.Init {
			kv := cfg.Init[(i+tid)%len(cfg.Init)]
			ops = append(ops, MOp{Op: "del", P: bridge.Chars([]byte(kv[0]))})
		}
	}
	w.NextTrace()
	st.Traces++
	env := NewTrieEnv(cfg.Store, cfg.Version)
	defer env.Close()
	chk := true
	var initItems []bridge.Item
	if len(h.Init) > 0 {
		for _, raw := range h.Init {
			var pair []json.RawMessage
			var p []string
			var v string
			if json.Unmarshal(raw, &pair) != nil || len(pair) != 2 || json.Unmarshal(pair[0], &p) != nil || json.Unmarshal(pair[1], &v) != nil {
				panic("bad init pair " + string(raw))
			}
			initItems = append(initItems, bridge.Item{Path: joinChars(p), Value: ValBytes(v)})
		}
		sort.Slice(initItems, func(i, j int) bool { return bytes.Compare(initItems[i].Path, initItems[j].Path) < 0 })
		for _, it := range initItems {
			if _, err := env.Trie.Insert(util.Path(append([]byte(nil), it.Path...)), Val(it.Value)); err != nil {
				panic(err)
			}
		}
	} else if len(cfg.Init) > 0 && env.Lower != nil {
		// build the pre-existing content directly on the lower store
		lt := util.NewMerklePatriciaTrie(env.Lower, util.Sequence(cfg.InitVer), nil, NewTxnCache())
		for _, kv := range cfg.Init {
			if _, err := lt.Insert(util.Path(kv[0]), Val(ValBytes(kv[1]))); err != nil {
				panic(err)
			}
		}
		env.Trie = util.NewMerklePatriciaTrie(env.DB, util.Sequence(cfg.Version), lt.GetRoot(), NewTxnCache())
		if cfg.InitVer != cfg.Version {
			chk = false
		}
		m := map[string]string{}
		for _, kv := range cfg.Init {
			m[kv[0]] = kv[1]
		}
		for p, v := range m {
			initItems = append(initItems, bridge.Item{Path: []byte(p), Value: ValBytes(v)})
		}
		sort.Slice(initItems, func(i, j int) bool { return bytes.Compare(initItems[i].Path, initItems[j].Path) < 0 })
	}
	cfgClass := fmt.Sprintf("v%d", cfg.Version)
	observe := func(ev map[string]any, touched [][]byte, withShape bool) {
		root := env.Trie.GetRoot()
		ev["root"] = in.ID(root)
		var gets []any
		for _, p := range touched {
			res, val := GetRaw(env.Trie, p)
			gets = append(gets, []any{bridge.Chars(p), res, bridge.Tok(val)})
			if res == "panic" {
				st.Panics++
			}
		}
		if gets == nil {
			gets = []any{}
		}
		ev["gets"] = gets
		items, ires := IterItems(env.Trie)
		ev["items"] = ItemsJSON(items)
		ev["ires"] = ires
		wantOrigin := int64(-1)
		if chk {
			wantOrigin = cfg.Version
		}
		wr := bridge.WalkMPT(root, RawGet(env.DB), wantOrigin)
		ev["keysOK"] = wr.KeysOK && wr.Missing == 0
		ev["originsOK"] = wr.OriginsEq
		if withShape {
			ev["shape"] = wr.Term.JSON()
		}
		ev["chk"] = chk
		k := ItemsKey(items)
		st.Contents[k] = true
		if chk && ires == "ok" {
			g := cfgClass + "|" + k
			if len(items) == 0 {
				g = "any|" // the empty trie has the nil root at every version
			}
			if st.RootGroups[g] == nil {
				st.RootGroups[g] = map[int]bool{}
			}
			st.RootGroups[g][in.ID(root)] = true
		}
	}
	ev := map[string]any{"tid": tid, "op": "reset", "cfg": cfgIdx, "store": cfg.Store, "ver": cfg.Version, "init": ItemsJSON(initItems)}
	observe(ev, nil, true)
	w.Emit(ev)
	st.Events++
	// over older lower content every operation runs on a fresh trie object (cold node cache), as a new block's trie
	// does: nodes are then fetched from the stores themselves, not from copies the observation left in the cache
	cold := cfg.Cold || (len(cfg.Init) > 0 && cfg.InitVer != cfg.Version)
	for i, op := range ops {
		if cold {
			env.Trie = util.NewMerklePatriciaTrie(env.DB, util.Sequence(cfg.Version), env.Trie.GetRoot(), NewTxnCache())
		}
		p := joinChars(op.P)
		ev := map[string]any{"tid": tid, "op": op.Op, "p": bridge.Chars(p), "v": op.V}
		var retRoot util.Key
		var res string
		switch op.Op {
		case "ins":
			res = Guard(func() string {
				r, err := InsertScribbled(env.Trie, p, ValBytes(op.V))
				retRoot = r
				return ResClass(err)
			})
		case "insEmpty":
			res = Guard(func() string {
				r, err := env.Trie.Insert(util.Path(append([]byte(nil), p...)), Val(nil))
				retRoot = r
				return ResClass(err)
			})
		case "insNil":
			res = Guard(func() string {
				r, err := env.Trie.Insert(util.Path(append([]byte(nil), p...)), nil)
				retRoot = r
				return ResClass(err)
			})
		case "insBig":
			if bigValue == nil {
				bigValue = bytes.Repeat([]byte{'B'}, util.MPTMaxAllowableNodeSize+1)
			}
			res = Guard(func() string {
				r, err := env.Trie.Insert(util.Path(append([]byte(nil), p...)), Val(bigValue))
				retRoot = r
				return ResClass(err)
			})
		case "del":
			res = Guard(func() string {
				pp := append([]byte(nil), p...)
				r, err := env.Trie.Delete(util.Path(pp))
				retRoot = r
				return ResClass(err)
			})
		case "get":
			res = "ok"
		default:
			panic("unknown op " + op.Op)
		}
		if res == "panic" {
			st.Panics++
		}
		ev["res"] = res
		ev["retRootOK"] = res != "ok" || op.Op == "get" || bytes.Equal(retRoot, env.Trie.GetRoot())
		touched := [][]byte{p}
		// two neighbours: the parent path and a sibling
		if len(p) >= 2 {
			touched = append(touched, p[:len(p)-2])
			sib := append([]byte(nil), p...)
			if sib[len(sib)-1] == '0' {
				sib[len(sib)-1] = '1'
			} else {
				sib[len(sib)-1] = '0'
			}
			touched = append(touched, sib)
		} else {
			touched = append(touched, []byte("00"))
		}
		withShape := shapeEvery <= 1 || i == len(ops)-1 || i%shapeEvery == 0
		observe(ev, touched, withShape)
		w.Emit(ev)
		st.Events++
	}
	// content-addressing sweep over every store of this configuration
	sw := map[string]any{"tid": tid, "op": "sweep"}
	keysOK, rtOK, n := true, true, 0
	dbs := []util.NodeDB{env.DB}
	if l, ok := env.DB.(*util.LevelNodeDB); ok {
		dbs = []util.NodeDB{l.GetCurrent(), l.GetPrev()}
	}
	for _, db := range dbs {
		r := SweepDB(db, cfg.Version)
		keysOK = keysOK && r.KeysOK
		rtOK = rtOK && r.RtOK
		n += r.N
		for c := range r.Classes {
			st.Classes[c] = true
		}
	}
	sw["keysOK"] = keysOK
	sw["rtOK"] = rtOK
	sw["n"] = n
	w.Emit(sw)
	st.Events++
}

// EmitRootGroups appends the root bookkeeping event (C02) to every shard that
// carries traces: one group per distinct validated content.
func EmitRootGroups(w *tr.Writer, st *MPTStats, shard int) {
	keys := make([]string, 0, len(st.RootGroups))
	for k := range st.RootGroups {
		keys = append(keys, k)
	}
	sort.Strings(keys)
	groups := make([]any, 0, len(keys))
	for _, k := range keys {
		ids := []int{}
		for id := range st.RootGroups[k] {
			ids = append(ids, id)
		}
		sort.Ints(ids)
		groups = append(groups, ids)
	}
	w.EmitTo(shard, map[string]any{"tid": 0, "op": "rootgroups", "groups": groups})
}

// ReadHistories reads TLC-generated histories (one JSON value per line:
// either an array of operations or {"init":[[path,val]...],"ops":[...]}).
func ReadHistories(path string) ([]MHist, error) {
	f, err := os.Open(path)
	if err != nil {
		return nil, err
	}
	defer f.Close()
	var out []MHist
	sc := bufio.NewScanner(f)
	sc.Buffer(make([]byte, 1<<20), 1<<26)
	for sc.Scan() {
		line := bytes.TrimSpace(sc.Bytes())
		if len(line) == 0 {
			continue
		}
		var h MHist
		if line[0] == '[' {
			if err := json.Unmarshal(line, &h.Ops); err != nil {
				return nil, fmt.Errorf("bad history line: %v", err)
			}
		} else if err := json.Unmarshal(line, &h); err != nil {
			return nil, fmt.Errorf("bad history line: %v", err)
		}
		out = append(out, h)
	}
	return out, sc.Err()
}

// GenMPTHistory draws a random history with colliding prefixes.
func GenMPTHistory(r *rand.Rand, maxOps int) []MOp {
	alpha := []byte("01")
	if r.Intn(3) == 0 {
		alpha = []byte("01f")
	}
	if r.Intn(6) == 0 {
		alpha = []byte("0")
	}
	switch r.Intn(12) {
	case 0: // the digit / letter boundary of the nibble alphabet
		alpha = []byte("9a")
	case 1: // the last children of a branch
		alpha = []byte("0ef")
	case 2: // all sixteen
		alpha = []byte("0123456789abcdef")
	}
	maxLen := 1 + r.Intn(5) // in byte pairs
	mkPath := func() []byte {
		n := 2 * r.Intn(maxLen+1)
		p := make([]byte, n)
		for i := range p {
			p[i] = alpha[r.Intn(len(alpha))]
		}
		return p
	}
	var pool [][]byte
	nops := 3 + r.Intn(maxOps)
	// (single bytes that mean something to an encoding layer are values like any other: 0xc0 is msgpack's nil, 0x80 / 0x90 / 0xa0
	// its empty map / array / string, 0x3a the field separator of the node format)
	vals := []string{"a", "b", "c", "x3a", "x003a00ff", "x0a", "hello", "xc0", "x00", "xff", "x80", "x90c0"}
	if MaxValBudget > 0 {
		// the size limit from below: values of exactly the largest accepted size are values like any other
		MaxValBudget--
		vals = append(vals, MaxValToken('m'), MaxValToken('n'))
	}
	if r.Intn(4) == 0 {
		// long values (values are binary tokens: "x" + hex)
		for i := 0; i < 3; i++ {
			vals = append(vals, "x"+strings.Repeat(fmt.Sprintf("%02x", 0x80+r.Intn(64)), 40+r.Intn(200)))
		}
	}
	// every sixth history uses realistic keys: 64 hex characters sharing long prefixes
	longKeys := r.Intn(6) == 0
	// ... and a third of those use keys longer than a hash (80 or 130 characters): a path may have any length
	keyLen := 64
	if longKeys && r.Intn(3) == 0 {
		keyLen = []int{80, 130}[r.Intn(2)]
	}
	var ops []MOp
	for i := 0; i < nops; i++ {
		var p []byte
		if len(pool) > 0 && r.Intn(100) < 55 {
			p = pool[r.Intn(len(pool))]
			// sometimes a prefix or an extension of a known path
			switch r.Intn(6) {
			case 0:
				if len(p) >= 2 {
					p = p[:2*r.Intn(len(p)/2+1)]
				}
			case 1:
				p = append(append([]byte(nil), p...), alpha[r.Intn(len(alpha))], alpha[r.Intn(len(alpha))])
			}
		} else {
			p = mkPath()
		}
		if longKeys {
			q := bytes.Repeat([]byte("0"), keyLen)
			if len(pool) > 0 && r.Intn(3) > 0 {
				copy(q, pool[r.Intn(len(pool))])
			}
			// change the key from some position on: shared prefixes of any length
			for j := []int{0, 1, 2, 31, 32, 60, 62, 63, keyLen - 2, keyLen - 1}[r.Intn(10)]; j < keyLen; j += 1 + r.Intn(20) {
				q[j] = "0123456789abcdef"[r.Intn(16)]
			}
			p = q
		}
		pool = append(pool, p)
		op := MOp{P: bridge.Chars(p)}
		switch x := r.Intn(100); {
		case x < 55:
			op.Op = "ins"
			op.V = vals[r.Intn(len(vals))]
		case x < 90:
			op.Op = "del"
		case x < 95:
			op.Op = "insEmpty"
		case x < 97:
			op.Op = "insNil"
		case x < 99:
			op.Op = "get"
		default:
			op.Op = "insBig"
		}
		ops = append(ops, op)
	}
	return ops
}

// RunMPTBulk is the large-scope companion of the sweep (C14): one trie of several hundred entries on a memory level
// over a persistent store; the whole change set goes to the persistent store in ONE SaveChanges (a multi-put of
// several hundred nodes), stores are copied with MergeState in both directions, every store is swept (key =
// independent hash of the content, decode/encode round trip) and the trie is read back from the persistent stores
// alone.  Emitted as a trace of its own consisting of one sweep event.
func RunMPTBulk(w *tr.Writer, st *MPTStats, tid int, r *rand.Rand) {
	w.NextTrace()
	st.Traces++
	env := NewTrieEnv("levelp", int64(1+r.Intn(3)))
	defer env.Close()
	n := 200 + r.Intn(500)
	want := map[string][]byte{}
	for i := 0; i < n; i++ {
		if i == n/2 && tid%2 == 0 {
			// the same trie object goes on at a later version: its change set then holds nodes of two origins
			env.Trie.SetVersion(util.Sequence(env.Version + 3))
		}
		p := make([]byte, 2*(1+r.Intn(4)))
		for j := range p {
			p[j] = "0123456789abcdef"[r.Intn(16)]
		}
		v := []byte(fmt.Sprintf("v%d:%d\x00:\xff", i, r.Intn(1000)))
		if r.Intn(10) == 0 {
			if _, err := env.Trie.Delete(util.Path(append([]byte(nil), p...))); err == nil {
				delete(want, string(p))
			}
			continue
		}
		if _, err := InsertScribbled(env.Trie, p, v); err != nil {
			panic(err)
		}
		want[string(p)] = v
	}
	keysOK, rtOK, total := true, true, 0
	sweep := func(db util.NodeDB) {
		s := SweepDB(db, env.Version)
		keysOK, rtOK, total = keysOK && s.KeysOK, rtOK && s.RtOK, total+s.N
		for c := range s.Classes {
			st.Classes[c] = true
		}
	}
	readback := func(db util.NodeDB) bool {
		t2 := util.NewMerklePatriciaTrie(db, util.Sequence(env.Version), env.Trie.GetRoot(), NewTxnCache())
		items, res := IterItems(t2)
		if res != "ok" || len(items) != len(want) {
			return false
		}
		for _, it := range items {
			if !bytes.Equal(want[string(it.Path)], it.Value) {
				return false
			}
		}
		return true
	}
	res := Guard(func() string {
		if err := env.Trie.SaveChanges(context.Background(), env.Lower, false); err != nil {
			return "err"
		}
		pdirSeq++
		dir2 := fmt.Sprintf("stub-%d", pdirSeq)
		p2, err := util.NewPNodeDB(dir2, "log")
		if err != nil {
			return "err"
		}
		defer grocksdb.DropStore(dir2)
		mem2 := util.NewMemoryNodeDB()
		if util.MergeState(context.Background(), env.Lower, p2) != nil || util.MergeState(context.Background(), p2, mem2) != nil {
			return "err"
		}
		for _, db := range []util.NodeDB{env.DB.(*util.LevelNodeDB).GetCurrent(), env.Lower, p2, mem2} {
			sweep(db)
		}
		// read back through the real trie only from stores whose nodes all sit under their own hash (a store with
		// misplaced nodes can hold cycles, which the real iteration would follow forever)
		if keysOK && rtOK && (!readback(env.Lower) || !readback(p2) || !readback(mem2)) {
			keysOK = false
		}
		return "ok"
	})
	if res != "ok" {
		keysOK = false
	}
	// codec round trip of every node kind over the (origin, version) plane: the two fields are independent
	Guard(func() string {
		marks := []int64{0, 1, 2, 255, 256, 1<<31 - 1, 1 << 31, 1<<32 + 1, 1<<62 + 3}
		for i := 0; i < 40; i++ {
			o, v := marks[r.Intn(len(marks))], marks[r.Intn(len(marks))]
			val := Val([]byte(fmt.Sprintf("rt%d:\x00:%d", i, o)))
			var nodes []util.Node
			fn := util.NewFullNode(val)
			fn.PutChild('a', bytes.Repeat([]byte{byte(i + 1)}, 32))
			nodes = append(nodes, util.NewLeafNode(util.Path("0a"), util.Path("1b2c"), util.Sequence(o), val), fn,
				util.NewExtensionNode(util.Path("3d4e"), util.Key(bytes.Repeat([]byte{byte(i + 7)}, 32))))
			for _, nd := range nodes {
				nd.SetOrigin(util.Sequence(o))
				nd.SetVersion(util.Sequence(v))
				enc := nd.Encode()
				n2, err := util.CreateNode(bytes.NewReader(enc))
				if err != nil || !bytes.Equal(n2.Encode(), enc) || !bytes.Equal(n2.GetHashBytes(), nd.GetHashBytes()) ||
					n2.GetOrigin() != nd.GetOrigin() || n2.GetVersion() != nd.GetVersion() {
					rtOK = false
				}
				total++
			}
		}
		return "ok"
	})
	w.Emit(map[string]any{"tid": tid, "op": "sweep", "keysOK": keysOK, "rtOK": rtOK, "n": total, "bulk": n})
	st.Events++
}
