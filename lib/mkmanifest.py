#!/usr/bin/env python3
"""Regenerates /verif/MANIFEST.json from the table below (single source of truth)."""
import json, os, subprocess
V = os.path.dirname(os.path.dirname(os.path.abspath(__file__)))

CHECKS = {
 "C01": dict(level="model_checking", ref="DESIGN.md §5 C01",
   text="TLC model-checks MPT.tla (map semantics + canonical-shape oracle) exhaustively over a 9-path universe; TLC emits every "
        "behaviour of the specification up to the generator depth; these and seeded random histories are executed on the real trie "
        "(memory, layered, persistent-stub stores) and every recorded event is validated by TLC against the specification "
        "(result class, lookups, full iteration).",
   note="trusted: harness bridge parser, in-memory grocksdb stub semantics, TLC",
   technique="TLA+ spec (MPT.tla) + TLC design check + TLC-generated behaviours replayed into the Go code + TLC trace validation"),
 "C02": dict(level="model_checking", ref="DESIGN.md §5 C02",
   text="Same traces as C01 with the structural check: the parsed real trie must equal Canon(content) of the specification in every "
        "recorded state, every node must be stored under the independent hash of its content (bridge), equal contents must have one "
        "root and distinct contents distinct roots over all histories of a run; Canon is shown injective/well-formed by TLC.",
   note="trusted: independent node hasher/parser in harness/bridge; sha3 collision freedom",
   technique="TLA+ canonical-shape oracle (MPT.tla Canon) checked by TLC on traces of the real trie; independent hash re-computation"),
 "C14": dict(level="model_checking", ref="DESIGN.md §5 C14",
   text="In every mpt trace TLC requires: each node reachable from each observed root is stored under the independent hash of its "
        "content, and a final sweep over every store (memory, each level, persistent stub) finds every (key,node) content-addressed "
        "and round-tripping through the real codec with identical bytes and hash.",
   note="trusted: bridge codec; values include separator and binary bytes",
   technique="TLC trace validation (MPTTrace.tla sweep/keys rules) of real stores + Codec.tla design check"),
 "C06": dict(level="model_checking", ref="DESIGN.md §5 C06",
   text="TLC model-checks StateCache.tla (block tree, uncommitted/committed write layers, Truth = closest committed write on the "
        "ancestor chain) exhaustively in a scope with a chain, a fork, a gap and a re-executed block; TLC emits every behaviour of "
        "depth 3 (quick) / 4 (thorough) plus -simulate samples; these, seeded random block trees and long-chain capacity scenarios "
        "run on the real caches, and TLC validates every lookup of every trace: result = miss or result = Truth.",
   note="known finding C06-EvictCloser (per-key LRU capacity) is characterised by a ghost predicate of the specification",
   technique="TLA+ spec (StateCache.tla) + TLC design check + TLC-generated behaviours replayed into the Go code + TLC trace validation"),
 "C07": dict(level="model_checking", ref="DESIGN.md §5 C07",
   text="Same specification and traces: TLC checks the visibility invariants (TxnPrivate, BlockPrivate, ForkIndependent, "
        "CommitStable) on the design and, on traces, that committed writes are found from descendant contexts (MustHit inside the "
        "capacities) and that no value is shared: the executor uses mutable values (own type and real LeafNode/FullNode), mutates "
        "everything it hands in or receives, and the specification has no transition for that.",
   note="block cache / transaction caches are not judged after their block's Commit",
   technique="TLA+ visibility invariants model-checked by TLC + TLC trace validation with caller-side mutation of all exchanged values"),
 "C08": dict(level="model_checking", ref="DESIGN.md §5 C08",
   text="StateCacheConc.tla models Get and commit at the granularity of shared-map accesses; TLC proves hit=>Truth, no poisoned memo, "
        "findability and 'a commit call that has returned has its write found' (in every state) over all interleavings of 44 scopes "
        "incl. blocks committed twice concurrently, and refutes three design mutants (previous step order, commits not serialised, a "
        "duplicate commit returning early); TLC emits every maximal schedule of 1 committer + 1 reader and of a twice-committed block + "
        "1 reader, samples of 2 committers + 2..3 readers and adversarial schedules of the unserialised model, which are replayed "
        "deterministically on real goroutines through the verif yield hook (each committer looks its block up right after Commit "
        "returned) and judged by TLC; free-running 8x32 stress under the race detector is judged by the same rule.",
   note="data races are decided by the Go race detector, not by the specification",
   technique="TLA+ step-level concurrency model checked by TLC; TLC-generated schedules replayed on goroutines via yield hook; TLC judges results; race detector"),
 "C03": dict(level="model_checking", ref="DESIGN.md §5 C03",
   text="MPTTxn.tla (block trie + child tries with open/op/merge/reject/discard) is model-checked by TLC for isolation, no-trace and "
        "no-lost-update; TLC emits every behaviour of depth 4 (quick) / 5 (thorough) plus -simulate samples; these and seeded random "
        "multi-transaction blocks run on real tries over layered stores; after every event TLC compares every live trie's root, "
        "content, pending new/dead node sets with the specification (tries not targeted by the event must be exactly as before).  "
        "The layered node stores underneath (read-through, write-to-current, layer isolation, MergeState, rebase) are specified in "
        "NodeDB.tla, model-checked (one design mutant refuted) and bound by trace validation of real MemoryNodeDB/PNodeDB/LevelNodeDB "
        "objects (NodeDBTrace.tla).",
   note="children left open across a change of the parent's root are stale: errors accepted, wrong data not; observation alternates "
        "between API reads and store-only reads so that node caches are not warmed by the observer",
   technique="TLA+ specs (MPTTxn.tla, NodeDB.tla) + TLC design checks + TLC-generated behaviours replayed into the Go code + TLC trace validation (MPTRounds.tla, NodeDBTrace.tla)"),
 "C04": dict(level="model_checking", ref="DESIGN.md §5 C04",
   text="MPTPersist.tla (rounds, atomic save batch, dead-node record, prune, crash at every storage operation, re-execution) is "
        "model-checked exhaustively (Safe/Complete/DeadNotLive, two design mutants refuted); real multi-round histories on the "
        "stub-backed PNodeDB are recorded with one event per storage write element and validated by TLC: every retained saved root "
        "resolvable in every intermediate store state, the saved root complete on the store alone, and a really reopened store reads "
        "exactly the saved content after every save, crash and prune.",
   note="RocksDB is replaced by an in-memory stub with ordered keys and atomic batches; a crash keeps a prefix of the write stream",
   technique="TLA+ persistence/crash model checked by TLC + TLC trace validation of per-write-element traces of the real PNodeDB/trie"),
 "C05": dict(level="model_checking", ref="DESIGN.md §5 C05",
   text="Same model and traces: TLC checks that no node reported dead by a round is reachable from that round's or any later "
        "round's root (reachability computed in TLA+ over the shipped node graph), that pruning deletes only nodes recorded dead "
        "below the prune version, and that every retained root stays resolvable after every prune delete batch, including "
        "interrupted and re-run prunes.",
   note="a pruning of more than 1000 dead nodes (several delete batches) is part of the quick tier (GenRoundsBulk big)",
   technique="TLA+ reachability invariants (MPTRounds.tla / MPTPersist.tla) checked by TLC on real per-write-element traces"),
 "C17": dict(level="model_checking", ref="DESIGN.md §5 C17",
   text="MPTSync.tla defines, on the canonical term, the frontier of absent nodes and the lookup result on a partial store; TLC "
        "checks the oracle and emits every (content, removed node set) of its scope (2080 plans quick); each plan and seeded random "
        "larger ones are executed on the real trie (HasMissingNodes, GetAllMissingNodes, GetMissingNodeKeys, lookups of all paths, "
        "repair through MergeDB or MergeState at the same/another version from donors in map order, donor byte-for-byte comparison) "
        "and validated by TLC; three large-scope plans (donor stores of several hundred nodes, several hundred scattered absent leaves).",
   note="nodes are named by position; tries with mixed node origins are included",
   technique="TLA+ frontier/lookup oracle (MPTSync.tla) + TLC-enumerated fault sets replayed into the Go code + TLC trace validation"),
 "C16": dict(level="model_checking", ref="DESIGN.md §5 C16",
   text="Real concurrent executions on one trie (race detector on) are recorded as call/return histories; MPTConc.tla, built on the "
        "sequential semantics of MPT.tla, lets TLC search for a linearization of every history (search mode with pending operations "
        "and a high-water mark) and compares the final content and canonical shape with the sequential execution; race-only runs "
        "make readers hit missing nodes.",
   note="data races are decided by the Go race detector; schedules are whatever the Go scheduler plus seeded perturbation produce",
   technique="TLA+ linearizability trace spec (search mode) checked by TLC over recorded concurrent histories + race detector"),
 "C09": dict(level="model_checking", ref="DESIGN.md §5 C09",
   text="WMPT.tla (content map with Total and Owner(b) by cumulative weight in key order) is model-checked by TLC "
        "(OwnerPartition, OwnerWeights, ContentStable); WMPTAlg.tla (insert/delete on terms) refines it (trie = WCanon(content), "
        "design mutants refuted); TLC-generated behaviours (exhaustive to a depth, -simulate) and seeded random histories (updates, "
        "re-weighing of unchanged values, deletes, commits at collapse levels 0-3/64, gc, reload / CopyRoot, root reads) run on the real "
        "trie over six key universes of 32-byte keys with weights scaled per trace; TLC validates Weight() after every operation, the "
        "owner, value, weight and verifying proof of every block (unit) at observation points, history independence of the root, the "
        "bridge's independent root of the observed content and the stored shape against WCanon.",
   note="known finding C09-SharedContent (consequence of the storage-sharing defect of C11)",
   technique="TLA+ specs (WMPT.tla, WMPTAlg.tla, WCanon.tla) + TLC design checks and design mutants + TLC-generated behaviours replayed into the Go code + TLC trace validation (WMPTTrace.tla)"),
 "C11": dict(level="model_checking", ref="DESIGN.md §5 C11",
   text="Same traces, recorded per storage write element: after every element TLC requires the last durably committed root to be "
        "resolvable (loader-closure computed in TLA+ over graph rows parsed from the stored bytes), after every commit the new root, "
        "and after every commit/gc a trie really reopened from (root, weight) must report exactly the specification's content "
        "(owner, value, weight, verifying proof for every block).",
   note="known finding C11-SharedContent: content-addressed nodes shared between positions are garbage-collected while referenced",
   technique="TLA+ resolvability invariant checked by TLC on per-write-element traces of the real trie/storage adapter"),
 "C13": dict(level="model_checking", ref="DESIGN.md §5 C13",
   text="Checkpoint (SaveRoot, or kept by the caller for RollbackTrie; with a history of earlier commits and gc passes) / change batch "
        "(also with root / proofs read while uncommitted) / single commit (any level) / optional gc / Rollback or RollbackTrie scenarios, "
        "from TLC (WMPT.tla: SaveRoot, Mark, Rollback) and a seeded generator: TLC checks root and "
        "weight equal the checkpoint's, the checkpoint root is resolvable, a reopened trie reports the checkpoint content, and no "
        "node that only the rolled-back commit added to storage remains.",
   note="exactly one commit between checkpoint and rollback; known finding C13-SharedContent",
   technique="TLA+ rollback invariants (WMPTTrace.tla) checked by TLC on per-write-element traces"),
 "C10": dict(level="model_checking", ref="DESIGN.md §5 C10",
   text="WMPTProof.tla transcribes the verifier (navigation by claimed weights, re-hash of the path) over structural hashes and an "
        "adversary with seven edit actions; TLC proves completeness and soundness for all tries/blocks/<=2 edits without "
        "re-weighting and refutes soundness with re-weighting; every explored tampering (103k quick) is applied to the real proof "
        "bytes and submitted to the real VerifyBlockProof, plus byte-level tampering of larger tries (incl. the deepest possible trie: "
        "64 nested branches); weights scaled per plan; proofs are requested before the root hash is read; TLC judges each outcome.",
   note="known findings C10-ReweightSiblings and C10-TypeConfusion (format-level)",
   technique="TLA+ adversary model checked by TLC + every TLC-explored tampering replayed on the real verifier + TLC trace validation"),
 "C12": dict(level="model_checking", ref="DESIGN.md §5 C12",
   text="WMPTPath.tla (one content, two observers) lets TLC enumerate every scenario of its scope - source content, collapse "
        "level, requested key set with absent keys and with more than ten keys, mirrored update/delete sequences on requested keys "
        "(19200 quick); these and seeded random scenarios over 32-byte keys of every root shape are executed on the real "
        "GetPath/Deserialize; TLC checks export and import succeed, roots and weights of source and partial trie agree with each "
        "other and with the specification's content after every mirrored step, and the bridge's independent root at the end.",
   note="content-level specification; the term-level model of hash references (WMPTAlg) is future growth",
   technique="TLA+ spec (WMPTPath.tla) + TLC-enumerated scenarios replayed into the Go code + TLC trace validation"),
 "C15": dict(level="exploration", ref="DESIGN.md §5 C15, §6",
   text="Codec.tla models the state-trie node format (Dec(Enc(n)) = n exhaustively over a small alphabet incl. separators inside "
        "values) and defines the space of near-valid inputs as mutation plans; TLC enumerates the whole plan space, every plan is "
        "concretised on every matching seed of a corpus harvested from real encodings and fed, with random inputs, to CreateNode, "
        "wmpt.DeserializeNode, Deserialize and VerifyBlockProof under recover and a deadline; accepted results are re-encoded; TLC "
        "validates every recorded outcome is ok/err.",
   note="exploration of a structured input space, not a proof over all byte strings",
   technique="TLC-enumerated mutation plans (Codec.tla) concretised on real encodings + random inputs; TLC validates recorded outcomes"),
 "C20": dict(level="model_checking", ref="DESIGN.md §5 C20",
   text="LogRing.tla specifies the snapshot as the last min(total, capacity) entries newest first, whichever logger wrote them; TLC "
        "checks the specification at a scaled capacity and emits every behaviour of 4-5 steps with run sizes around the real "
        "capacity; these, random histories and concurrent multi-goroutine runs (race detector) are executed on the real MemLogger "
        "and every snapshot is validated by TLC.",
   note="concurrent runs are judged by the order-independent suffix-interleaving rule; races by the Go race detector",
   technique="TLA+ spec (LogRing.tla) + TLC-generated behaviours replayed into the Go code + TLC trace validation + race detector"),
 "C19": dict(level="model_checking", ref="DESIGN.md §5 C19",
   text="MerkleTree.tla defines the array layout (level sizes, offsets, last-node duplication, sibling positions) and, with symbolic "
        "hashing, TLC checks for every n <= 40 (thorough 64) and every index that the path proves its leaf and no other; the real "
        "trees for every n up to 300/600 and every index are recorded (array positions of path nodes, verification flags, foreign "
        "leaves, layout rows, SetTree round trip) and validated by TLC against the layout operators.",
   note="no TLC-generated behaviours: the input space (n, index) is enumerated directly",
   technique="TLA+ layout/sibling-position oracle (MerkleTree.tla) model-checked by TLC + TLC trace validation of all (n, index)"),
 "C18": dict(level="model_checking", ref="DESIGN.md §5 C18, §6",
   text="Currency.tla states the required outcome of every exported helper with exact base-10^4 limb arithmetic (TLC integers are "
        "32-bit) and transcribes the overflow idioms for W-bit words, which TLC checks exhaustively for W = 6 (thorough 8) and "
        "refutes for the pre-fix idiom; the real helpers are called on a boundary lattice of 64-bit/signed/float operands plus "
        "random operands and TLC recomputes every recorded result (exact or error, never a panic).",
   note="IEEE products, exact integer parts and shortest decimals come from the Go runtime (trusted)",
   technique="TLA+ exact-arithmetic oracle (Currency.tla) evaluated by TLC on recorded calls + exhaustive W-bit idiom check"),
}

NOT_APPLICABLE = []

def main():
    src = []
    try:
        out = subprocess.run(["git", "-C", "/repo", "log", "--format=%h %s"], capture_output=True, text=True).stdout
        for line in out.splitlines():
            if line.split(" ", 1)[1].startswith("verif:"):
                src.append(line.split()[0])
    except Exception:
        pass
    m = {
     "version": 1,
     "setup_cmd": "cd /verif && ./bin/setup",
     "hooks": {
      "guard": "verif",
      "enable": "go build -tags verif in the harness module /verif/harness (replace github.com/0chain/common => /repo); hook files are *_verif_on.go (//go:build verif) / *_verif_off.go (//go:build !verif)",
      "baseline_off_cmd": "cd /verif && ./bin/baseline",
      "source_commits": src,
      "add_only": True
     },
     "engines": [
      {"name": "tlc", "path": "/opt/veriftools/tla/tla2tools.jar", "serves_properties": sorted(CHECKS), "kind_free_text": "explicit-state model checker for the TLA+ specifications in /verif/specs (design checks, behaviour generation, trace validation)"},
      {"name": "vexec", "path": "/verif/harness", "serves_properties": sorted(CHECKS), "kind_free_text": "Go executor that drives the real 0chain/common code from /repo's working tree and records ndjson traces"}
     ],
     "checks": [],
     "notes": "bin/check <id> <tier>; VERIF_SEED seeds Go generators and TLC simulation; exit 2 = infrastructure error, never a verdict.",
     "not_applicable": NOT_APPLICABLE,
    }
    for pid in sorted(CHECKS):
        c = CHECKS[pid]
        m["checks"].append({
          "property_id": pid,
          "quick_cmd": "./bin/check %s quick" % pid,
          "thorough_cmd": "./bin/check %s thorough" % pid,
          "evidence_file": "/verif/evidence/%s.json" % pid,
          "replay_cmd_template": "./bin/check replay {path}",
          "engine": "tlc",
          "level_claimed": {"category": c["level"], "text": c["text"], "design_ref": c["ref"]},
          "level_note": c["note"],
          "technique": c["technique"],
        })
    json.dump(m, open(os.path.join(V, "MANIFEST.json"), "w"), indent=1)
    print("MANIFEST.json:", len(m["checks"]), "checks")

if __name__ == "__main__":
    main()
