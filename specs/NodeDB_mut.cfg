SPECIFICATION Spec
CONSTANTS
  Keys = {1}
  Mutant = "propagate-always"
  Topos <- MCTopos
  GenMode = FALSE
  Depth = 0
INVARIANTS ReadThrough
PROPERTIES Isolation MergeSourceKept MergeComplete PutVisible RebaseEq
VIEW View
CHECK_DEADLOCK FALSE
