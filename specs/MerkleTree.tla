------------------------------ MODULE MerkleTree ------------------------------
(***************************************************************************)
(* Array layout of the Merkle tree of core/util/merkle_tree.go (C19).      *)
(*                                                                         *)
(* Levels are stored one after the other, leaves first, root last.  Level  *)
(* sizes: s1 = n, s(i+1) = ceil(si / 2) until 1 (n = 1: two levels of one  *)
(* node, the root being MHash(leaf, leaf)).  On a level of odd size the    *)
(* last node is paired with itself.                                        *)
(*                                                                         *)
(*   Sizes(n)            sequence of level sizes                           *)
(*   Off(n, L)           array offset of level L (1-based)                 *)
(*   Layout(n)           set of <<parent, left, right>> array positions    *)
(*   SiblingPos(n, i, L) array position of the path node of leaf i at L    *)
(*                                                                         *)
(* With symbolic hashing MH(a, b) == <<a, b>> (collision freedom) TLC      *)
(* checks for every n <= N and every index that folding the leaf with the  *)
(* nodes at SiblingPos yields the root term, and that no other leaf does.  *)
(***************************************************************************)
EXTENDS Naturals, Sequences, FiniteSets, TLC

CONSTANT N
VARIABLE n
Init == n \in 1..N
Next == UNCHANGED n
Spec == Init /\ [][Next]_n

Half(x) == (x + 1) \div 2
RECURSIVE SizesFrom(_)
SizesFrom(s) == IF s = 1 THEN <<1>> ELSE <<s>> \o SizesFrom(Half(s))
Sizes(m) == IF m = 1 THEN <<1, 1>> ELSE SizesFrom(m)
Levels(m) == Len(Sizes(m))
RECURSIVE OffAt(_, _)
OffAt(sz, L) == IF L = 1 THEN 0 ELSE OffAt(sz, L - 1) + sz[L - 1]
Off(m, L) == OffAt(Sizes(m), L)
TreeSize(m) == Off(m, Levels(m)) + 1

\* children (0-based indices on level L) of node j on level L+1
RightOf(m, L, j) == IF 2 * j + 1 < Sizes(m)[L] THEN 2 * j + 1 ELSE 2 * j
Layout(m) ==
  UNION {{<<Off(m, L + 1) + j, Off(m, L) + 2 * j, Off(m, L) + RightOf(m, L, j)>> : j \in 0..(Sizes(m)[L + 1] - 1)} :
            L \in 1..(Levels(m) - 1)}

RECURSIVE Shift(_, _)
Shift(i, k) == IF k = 0 THEN i ELSE Shift(i \div 2, k - 1)
\* index (on level L) of the sibling used by the path of leaf i
SibIdx(m, i, L) ==
  LET x == Shift(i, L - 1) IN
  IF x % 2 = 1 THEN x - 1 ELSE IF x + 1 < Sizes(m)[L] THEN x + 1 ELSE x
SiblingPos(m, i, L) == Off(m, L) + SibIdx(m, i, L)
PathLen(m) == Levels(m) - 1

---------------------------------------------------------------------------
(* symbolic tree *)
MH(a, b) == <<a, b>>
RECURSIVE NodeT(_, _, _)
NodeT(m, L, j) == IF L = 1 THEN <<"leaf", j>>
                  ELSE MH(NodeT(m, L - 1, 2 * j), NodeT(m, L - 1, RightOf(m, L - 1, j)))
RootT(m) == NodeT(m, Levels(m), 0)

RECURSIVE Fold(_, _, _, _, _)
\* VerifyMerklePath: fold hash h of the leaf at index i with the path nodes of levels L..PathLen
Fold(m, h, i, leaf, L) ==
  IF L > PathLen(m) THEN h
  ELSE LET s == NodeT(m, L, SibIdx(m, leaf, L))
       IN  Fold(m, IF i % 2 = 1 THEN MH(s, h) ELSE MH(h, s), i \div 2, leaf, L + 1)

\* the path of leaf i proves leaf i ...
PathProves == \A i \in 0..(n - 1) : Fold(n, <<"leaf", i>>, i, i, 1) = RootT(n)
\* ... and no other leaf offered with the same path and index
PathExclusive == \A i \in 0..(n - 1) : \A j \in 0..(n - 1) : j # i => Fold(n, <<"leaf", j>>, i, i, 1) # RootT(n)
\* layout sanity: every non-leaf position has exactly one layout row; the root is the last position
LayoutOK == /\ Cardinality(Layout(n)) = TreeSize(n) - n
            /\ {t[1] : t \in Layout(n)} = n..(TreeSize(n) - 1)
=============================================================================
