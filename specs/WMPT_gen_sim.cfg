SPECIFICATION Spec
CONSTANTS
  NKeys = 5
  Vals <- MCVals
  Wt <- MCWt
  Depth = 14
  GenMode = TRUE
CHECK_DEADLOCK FALSE
