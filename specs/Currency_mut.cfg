SPECIFICATION ISpec
CONSTANTS
  W = 6
  Idiom = "divide_back_nonzero"
INVARIANTS MulExact AddExact SubExact LimbSanity
CHECK_DEADLOCK FALSE
