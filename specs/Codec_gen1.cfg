SPECIFICATION CSpec
CONSTANTS
  MaxMuts = 1
  GenMode = TRUE
INVARIANTS EmitPlan
CHECK_DEADLOCK FALSE
