SPECIFICATION Spec
CONSTANTS
  NKeys = 2
  ReW = {1, 3}
  Vals <- MCVals
  Wt <- MCWt
  Depth = 4
  GenMode = TRUE
CHECK_DEADLOCK FALSE
