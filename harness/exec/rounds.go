package exec

import (
	"bytes"
	"context"
	"encoding/binary"
	"fmt"
	"math/rand"
	"sort"
	"strings"

	"verifharness/bridge"
	"verifharness/tr"

	"github.com/0chain/common/core/statecache"
	"github.com/0chain/common/core/util"
	"github.com/linxGnu/grocksdb"
)

// ROp is one step of a multi-round block history.
type ROp struct {
	Op  string   `json:"op"` // round open ins del merge discard save recdead prune crash
	T   int      `json:"t"`  // trie id (0 = block trie)
	P   []string `json:"p,omitempty"`
	V   string   `json:"v,omitempty"`
	Ver int64    `json:"ver,omitempty"`
	K   int      `json:"k,omitempty"` // crash: number of write elements of the next storage op that survive (mod n+1)
}

// RHist is a history of rounds.
type RHist struct {
	Persist     bool  `json:"persist"` // false: a single block on a memory base (C03 only)
	Quiet       bool  `json:"quiet"`   // observe tries through their node stores only (no API reads that warm node caches)
	SharedCache bool  `json:"sharedcache"`
	Ops         []ROp `json:"ops"`
}

// RStats collects coverage of a rounds run.
type RStats struct {
	Traces, Events, Crashes, Prunes, Saves, Merges, Rejected, Panics, Reopens int
	Distinct                                                                  map[string]bool
}

type rtrie struct {
	id    int
	trie  *util.MerklePatriciaTrie
	cache *statecache.TransactionCache
}

type rounds struct {
	w        *tr.Writer
	in       *tr.Interner
	st       *RStats
	tid      int
	h        RHist
	dir      string
	store    *grocksdb.Store
	pndb     *util.PNodeDB
	base     util.NodeDB // read-through base of the block trie
	ver      int64
	lastRoot util.Key
	// root the current round started from (a completed round may be executed again at the same version: "rerun")
	roundStart util.Key
	tries      map[int]*rtrie
	order      []int
	sc         *statecache.StateCache
	bc         *statecache.BlockCache
	known      map[int]bool // node ids whose graph row was shipped
	saved      []savedRoot  // saved (version, root), in order
	prune      int64
	crashK     int // -1: none armed
	elems      []grocksdb.Elem
	snaps      [][]map[string][]byte
	sig        bytes.Buffer
}

type savedRoot struct {
	ver  int64
	root util.Key
}

func (r *rounds) nodeRow(enc []byte, rows *[]any) int {
	n, err := bridge.ParseMPTNode(enc)
	if err != nil {
		return -1
	}
	id := r.in.ID(n.Hash())
	if r.known[id] {
		return id
	}
	r.known[id] = true
	kids := []int{}
	switch n.Kind {
	case 'E':
		kids = append(kids, r.in.ID(n.Child))
	case 'F':
		for _, k := range n.Kids {
			if k != nil {
				kids = append(kids, r.in.ID(k))
			}
		}
	}
	*rows = append(*rows, []any{id, string(n.Kind), n.Origin, kids})
	return id
}

func (r *rounds) obs(rows *[]any) []any {
	var out []any
	for _, id := range r.order {
		t := r.tries[id]
		if t == nil {
			continue
		}
		o := map[string]any{"t": id}
		res := Guard(func() string {
			root, changes, deletes, start := t.trie.GetChanges()
			o["root"] = r.in.ID(root)
			o["start"] = r.in.ID(start)
			news, deads := []int{}, []int{}
			for _, c := range changes {
				enc := c.New.Encode()
				nid := r.nodeRow(enc, rows)
				// the pending object must still hash to the key it was collected under
				if nid < 0 || !bytes.Equal(c.New.GetHashBytes(), mustHash(enc)) {
					o["corrupt"] = true
				}
				news = append(news, r.in.ID(c.New.GetHashBytes()))
			}
			for _, d := range deletes {
				deads = append(deads, r.in.ID(d.GetHashBytes()))
			}
			sort.Ints(news)
			sort.Ints(deads)
			o["news"] = news
			o["deads"] = deads
			return "ok"
		})
		if res != "ok" {
			o["root"], o["start"], o["news"], o["deads"] = -1, -1, []int{}, []int{}
		}
		if r.h.Quiet {
			// read the trie's state from its node store through the bridge: no API call, no cache warming
			wr := bridge.WalkMPT(t.trie.GetRoot(), RawGet(t.trie.GetNodeDB()), -1)
			o["items"] = ItemsJSON(wr.Term.Items())
			o["ires"] = "ok"
			if wr.Missing > 0 {
				o["ires"] = "nodenotfound"
			}
			if !wr.KeysOK {
				o["corrupt"] = true
			}
		} else {
			items, ires := IterItems(t.trie)
			o["items"] = ItemsJSON(items)
			o["ires"] = ires
		}
		if _, ok := o["corrupt"]; !ok {
			o["corrupt"] = false
		}
		out = append(out, o)
	}
	if out == nil {
		out = []any{}
	}
	return out
}

func mustHash(enc []byte) []byte {
	n, err := bridge.ParseMPTNode(enc)
	if err != nil {
		return nil
	}
	return n.Hash()
}

func (r *rounds) emit(ev map[string]any) {
	ev["tid"] = r.tid
	rows := []any{}
	ev["obs"] = r.obs(&rows)
	if extra, ok := ev["nodes"].([]any); ok {
		rows = append(extra, rows...)
	}
	ev["nodes"] = rows
	r.w.Emit(ev)
	r.st.Events++
}

func (r *rounds) emitPlain(ev map[string]any) {
	ev["tid"] = r.tid
	r.w.Emit(ev)
	r.st.Events++
}

func (r *rounds) newCache() *statecache.TransactionCache {
	if r.h.SharedCache && r.bc != nil {
		return statecache.NewTransactionCache(r.bc)
	}
	return NewTxnCache()
}

func (r *rounds) openStore() {
	p, err := util.NewPNodeDB(r.dir, "log")
	if err != nil {
		panic(err)
	}
	r.pndb = p
	r.base = p
}

// elemEvent renders one write element of the stub's stream.
func (r *rounds) elemEvent(e grocksdb.Elem) map[string]any {
	puts, dels, dput, ddel := []int{}, []int{}, []int64{}, []int64{}
	rows := []any{}
	for _, op := range e.Ops {
		if op.CF == 0 {
			if op.Delete {
				dels = append(dels, r.in.ID(op.Key))
			} else {
				puts = append(puts, r.in.ID(op.Key))
				// graph row from the bytes actually written; key must be the hash of the content
				if id := r.nodeRow(op.Value, &rows); id != r.in.ID(op.Key) {
					rows = append(rows, []any{r.in.ID(op.Key), "B", 0, []int{}})
				}
			}
		} else {
			v := int64(binary.BigEndian.Uint64(op.Key))
			if op.Delete {
				ddel = append(ddel, v)
			} else {
				dput = append(dput, v)
			}
		}
	}
	return map[string]any{"op": "w", "kind": e.Kind, "puts": puts, "dels": dels, "dput": dput, "ddel": ddel, "nodes": rows}
}

// storageOp runs f (which writes to the persistent store), emits one event per
// surviving write element, and applies an armed crash.  Returns true if crashed.
func (r *rounds) storageOp(f func() string) (res string, crashed bool) {
	r.elems = nil
	r.snaps = [][]map[string][]byte{r.store.Snapshot()}
	r.store.Observer = func(e grocksdb.Elem) {
		r.elems = append(r.elems, e)
		r.snaps = append(r.snaps, r.store.Snapshot())
	}
	res = Guard(f)
	r.store.Observer = nil
	survive := len(r.elems)
	if r.crashK >= 0 {
		survive = r.crashK % (len(r.elems) + 1)
		crashed = true
		r.crashK = -1
	}
	for i := 0; i < survive; i++ {
		ev := r.elemEvent(r.elems[i])
		r.emitPlain(ev)
	}
	if crashed {
		r.store.Restore(r.snaps[survive])
	}
	return
}

func (r *rounds) crash() {
	// all volatile objects are abandoned; the store keeps what was applied
	r.tries = map[int]*rtrie{}
	r.order = nil
	r.openStore()
	r.st.Crashes++
	r.emitPlain(map[string]any{"op": "crash"})
	r.reopenCheck()
}

// reopenCheck opens a fresh PNodeDB on the surviving store and reads every
// retained saved root from the store alone.
func (r *rounds) reopenCheck() {
	p2, err := util.NewPNodeDB(r.dir, "log")
	if err != nil {
		panic(err)
	}
	var checks []any
	seen := map[int64]bool{}
	for i := len(r.saved) - 1; i >= 0; i-- { // latest save of each version
		s := r.saved[i]
		if seen[s.ver] {
			continue
		}
		seen[s.ver] = true
		t := util.NewMerklePatriciaTrie(p2, util.Sequence(s.ver), s.root, NewTxnCache())
		// bounded independent walk first: a store with misplaced nodes can hold cycles, which the real
		// iteration would follow forever; such a store is reported without iterating it
		wr := bridge.WalkMPT(s.root, RawGet(p2), -1)
		items, ires := []bridge.Item{}, "skipped"
		if wr.KeysOK {
			items, ires = IterItems(t)
		}
		checks = append(checks, map[string]any{"ver": s.ver, "root": r.in.ID(s.root), "ires": ires, "items": ItemsJSON(items),
			"missing": wr.Missing, "keysOK": wr.KeysOK})
	}
	if checks == nil {
		checks = []any{}
	}
	r.st.Reopens++
	r.emitPlain(map[string]any{"op": "reopen", "checks": checks})
}

// RunRounds executes one multi-round history.
func RunRounds(w *tr.Writer, in *tr.Interner, st *RStats, tid int, h RHist) {
	w.NextTrace()
	st.Traces++
	pdirSeq++
	r := &rounds{w: w, in: in, st: st, tid: tid, h: h, dir: fmt.Sprintf("rounds-%d", pdirSeq), tries: map[int]*rtrie{}, known: map[int]bool{}, crashK: -1}
	r.store = grocksdb.GetStore(r.dir)
	defer grocksdb.DropStore(r.dir)
	if h.Persist {
		r.openStore()
	} else {
		r.base = util.NewMemoryNodeDB()
	}
	broken := map[int]bool{}
	r.emitPlain(map[string]any{"op": "reset", "persist": h.Persist, "quiet": h.Quiet, "sharedcache": h.SharedCache})
	for _, op := range h.Ops {
		r.sig.WriteString(op.Op[:2])
		switch op.Op {
		case "round":
			broken = map[int]bool{}
			r.ver = op.Ver
			r.tries = map[int]*rtrie{}
			r.order = []int{0}
			r.sc = statecache.NewStateCache()
			r.bc = statecache.NewBlockCache(r.sc, statecache.Block{Round: op.Ver, Hash: fmt.Sprintf("blk%d", op.Ver), PrevHash: fmt.Sprintf("blk%d", op.Ver-1)})
			db := util.NewLevelNodeDB(util.NewMemoryNodeDB(), r.base, false)
			c := r.newCache()
			r.roundStart = r.lastRoot
			r.tries[0] = &rtrie{id: 0, cache: c, trie: util.NewMerklePatriciaTrie(db, util.Sequence(op.Ver), r.lastRoot, c)}
			r.emit(map[string]any{"op": "round", "ver": op.Ver, "from": in.ID(r.lastRoot)})
		case "open":
			parent := r.tries[0]
			if parent == nil {
				continue
			}
			db := util.NewLevelNodeDB(util.NewMemoryNodeDB(), parent.trie.GetNodeDB(), false)
			c := r.newCache()
			r.tries[op.T] = &rtrie{id: op.T, cache: c, trie: util.NewMerklePatriciaTrie(db, parent.trie.GetVersion(), parent.trie.GetRoot(), c)}
			r.order = append(r.order, op.T)
			r.emit(map[string]any{"op": "open", "t": op.T})
		case "ins", "del":
			t := r.tries[op.T]
			if t == nil {
				continue
			}
			p := joinChars(op.P)
			res := Guard(func() string {
				var err error
				if op.Op == "ins" {
					_, err = InsertScribbled(t.trie, p, ValBytes(op.V))
				} else {
					_, err = t.trie.Delete(util.Path(append([]byte(nil), p...)))
				}
				return ResClass(err)
			})
			if res == "panic" {
				st.Panics++
			}
			if res != "ok" && res != "notpresent" && op.T != 0 {
				// an operation that failed on a (stale) child may have been applied partially: such a
				// transaction is aborted, never merged (its later merge is turned into a discard)
				broken[op.T] = true
			}
			r.emit(map[string]any{"op": op.Op, "t": op.T, "p": bridge.Chars(p), "v": op.V, "res": res})
		case "rerun":
			// the round just completed is executed again at the same version (other content) from the root it started from
			r.lastRoot = r.roundStart
		case "bulk":
			// op.K seeded random updates of trie op.T executed as ONE trace event (composite action of the specification)
			t := r.tries[op.T]
			if t == nil {
				continue
			}
			br := rand.New(rand.NewSource(int64(op.Ver)))
			var kvs []any
			res := "ok"
			for i := 0; i < op.K; i++ {
				p := make([]byte, 2*(1+br.Intn(3)))
				for j := range p {
					p[j] = "0123456789abcdef"[br.Intn(16)]
				}
				v := fmt.Sprintf("b%dv%d", op.Ver, i)
				del := br.Intn(6) == 0
				one := Guard(func() string {
					var err error
					if del {
						_, err = t.trie.Delete(util.Path(append([]byte(nil), p...)))
					} else {
						_, err = InsertScribbled(t.trie, p, []byte(v))
					}
					return ResClass(err)
				})
				if del {
					v = ""
				}
				if one != "ok" && !(del && one == "notpresent") {
					res = one
				}
				kvs = append(kvs, []any{bridge.Chars(p), v})
			}
			r.emit(map[string]any{"op": "bulk", "t": op.T, "kvs": kvs, "res": res})
		case "merge":
			t, parent := r.tries[op.T], r.tries[0]
			if t == nil || parent == nil || op.T == 0 {
				continue
			}
			if broken[op.T] {
				delete(r.tries, op.T)
				r.emit(map[string]any{"op": "discard", "t": op.T})
				continue
			}
			res := Guard(func() string {
				// the two entry points of a merge: the child trie itself, or the change set taken from it
				if (op.T+len(r.tries))%2 == 0 {
					newRoot, changes, deletes, startRoot := t.trie.GetChanges()
					if err := parent.trie.MergeChanges(newRoot, changes, deletes, startRoot); err != nil {
						return "rejected"
					}
					return "ok"
				}
				if err := parent.trie.MergeMPTChanges(t.trie); err != nil {
					return "rejected"
				}
				return "ok"
			})
			if res == "ok" && r.h.SharedCache {
				t.cache.Commit()
			}
			if res == "rejected" {
				st.Rejected++
			}
			st.Merges++
			delete(r.tries, op.T)
			r.emit(map[string]any{"op": "merge", "t": op.T, "res": res})
		case "discard":
			if r.tries[op.T] == nil || op.T == 0 {
				continue
			}
			delete(r.tries, op.T)
			r.emit(map[string]any{"op": "discard", "t": op.T})
		case "crash":
			if h.Persist {
				r.crashK = op.K
			}
		case "save":
			b := r.tries[0]
			if b == nil || !h.Persist {
				continue
			}
			// children still open are abandoned at save time
			for id := range r.tries {
				if id != 0 {
					delete(r.tries, id)
				}
			}
			r.order = []int{0}
			root := b.trie.GetRoot()
			r.emit(map[string]any{"op": "savebegin", "ver": r.ver, "root": in.ID(root)})
			deads := b.trie.GetDeletes()
			res, crashed := r.storageOp(func() string {
				if err := b.trie.SaveChanges(context.Background(), r.pndb, false); err != nil {
					return "err"
				}
				return "ok"
			})
			st.Saves++
			if crashed {
				r.crash()
				continue
			}
			r.emitPlain(map[string]any{"op": "saveend", "ver": r.ver, "root": in.ID(root), "res": res})
			r.saved = append(r.saved, savedRoot{r.ver, root})
			// record the dead nodes of the round (second storage operation)
			dids := []int{}
			for _, d := range deads {
				dids = append(dids, in.ID(d.GetHashBytes()))
			}
			sort.Ints(dids)
			r.emitPlain(map[string]any{"op": "recdead", "ver": r.ver, "deads": dids})
			_, crashed = r.storageOp(func() string {
				if err := r.pndb.RecordDeadNodes(deads, r.ver); err != nil {
					return "err"
				}
				return "ok"
			})
			if crashed {
				r.crash()
				continue
			}
			r.lastRoot = root
			if r.h.SharedCache {
				b.cache.Commit()
				r.bc.Commit()
			}
			r.tries = map[int]*rtrie{}
			r.order = nil
			r.reopenCheck()
		case "prune":
			if !h.Persist || r.pndb == nil {
				continue
			}
			if op.Ver > r.prune {
				r.prune = op.Ver
			}
			r.emitPlain(map[string]any{"op": "prune", "ver": op.Ver})
			res, crashed := r.storageOp(func() string {
				if err := r.pndb.PruneBelowVersion(context.Background(), op.Ver); err != nil {
					return "err"
				}
				return "ok"
			})
			st.Prunes++
			// drop saved roots below the prune version from the retained list
			var keep []savedRoot
			for _, s := range r.saved {
				if s.ver >= r.prune {
					keep = append(keep, s)
				}
			}
			r.saved = keep
			if crashed {
				r.crash()
				continue
			}
			r.emitPlain(map[string]any{"op": "pruneend", "ver": op.Ver, "res": res})
			r.reopenCheck()
		default:
			panic("unknown rounds op " + op.Op)
		}
	}
	st.Distinct[r.sig.String()] = true
}

// GenRounds draws a random multi-round history.
func GenRounds(rnd *rand.Rand, persist bool) RHist {
	h := RHist{Persist: persist, SharedCache: rnd.Intn(3) == 0, Quiet: rnd.Intn(2) == 0}
	alpha := []byte("01")
	if rnd.Intn(3) == 0 {
		alpha = []byte("01a")
	}
	switch rnd.Intn(12) {
	case 0:
		alpha = []byte("9a")
	case 1:
		alpha = []byte("0ef")
	case 2:
		alpha = []byte("0123456789abcdef")
	}
	maxLen := 1 + rnd.Intn(3)
	longKeys := rnd.Intn(6) == 0
	keyLen := 64
	if longKeys && rnd.Intn(3) == 0 {
		keyLen = []int{80, 130}[rnd.Intn(2)] // a path may be longer than a hash
	}
	var pool [][]byte
	path := func() []byte {
		if len(pool) > 0 && rnd.Intn(100) < 65 {
			p := pool[rnd.Intn(len(pool))]
			if rnd.Intn(8) == 0 && len(p) >= 2 {
				p = p[:len(p)-2]
			}
			return p
		}
		n := 2 * rnd.Intn(maxLen+1)
		p := make([]byte, n)
		for i := range p {
			p[i] = alpha[rnd.Intn(len(alpha))]
		}
		if longKeys {
			// realistic keys: 64 hex characters, derived from an earlier key from some position on
			q := bytes.Repeat([]byte("0"), keyLen)
			if len(pool) > 0 && rnd.Intn(3) > 0 {
				copy(q, pool[rnd.Intn(len(pool))])
			}
			for j := []int{0, 1, 2, 31, 32, 60, 62, 63, keyLen - 2, keyLen - 1}[rnd.Intn(10)]; j < keyLen; j += 1 + rnd.Intn(20) {
				q[j] = "0123456789abcdef"[rnd.Intn(16)]
			}
			p = q
		}
		pool = append(pool, p)
		return p
	}
	vals := []string{"a", "b", "c"}

	if rnd.Intn(4) == 0 {
		// long binary values
		for i := 0; i < 2; i++ {
			vals = append(vals, "x"+strings.Repeat(fmt.Sprintf("%02x", 0x80+rnd.Intn(64)), 40+rnd.Intn(150)))
		}
	}
	nrounds := 1
	if persist {
		nrounds = 3 + rnd.Intn(8)
	}
	ver := int64(1 + rnd.Intn(3))
	switch rnd.Intn(10) {
	case 0: // versions across a byte boundary of their stored form (dead-node records are kept in version order)
		ver = int64(254 + rnd.Intn(3))
	case 1:
		ver = int64(65534 + rnd.Intn(3))
	case 2:
		ver = int64(1<<24 - 3 + rnd.Intn(3))
	}
	lastSaved := int64(0)
	var view map[int]map[string]string
	for rd := 0; rd < nrounds; rd++ {
		h.Ops = append(h.Ops, ROp{Op: "round", Ver: ver})
		ntx := 1 + rnd.Intn(5)
		// approximate per-trie views (generator-side bookkeeping only, never used as an oracle)
		changed := map[int][]ROp{}
		if view == nil {
			view = map[int]map[string]string{0: {}}
		}
		open := []int{}
		next := 1
		nsteps := ntx * (1 + rnd.Intn(5))
		for s := 0; s < nsteps; s++ {
			x := rnd.Intn(100)
			switch {
			case x < 18 || len(open) == 0:
				if x < 6 { // direct op on the block trie
					h.Ops = append(h.Ops, mkOp(rnd, 0, path(), vals))
					continue
				}
				open = append(open, next)
				h.Ops = append(h.Ops, ROp{Op: "open", T: next})
				view[next] = map[string]string{}
				for k, v := range view[0] {
					view[next][k] = v
				}
				next++
			case x < 75:
				c := open[rnd.Intn(len(open))]
				// restore: undo an earlier change of this child exactly (write the previous value back / delete what it added)
				if hist := changed[c]; len(hist) > 0 && rnd.Intn(100) < 30 {
					u := hist[rnd.Intn(len(hist))]
					if u.V == "" {
						h.Ops = append(h.Ops, ROp{Op: "del", T: c, P: u.P})
					} else {
						h.Ops = append(h.Ops, ROp{Op: "ins", T: c, P: u.P, V: u.V})
					}
					continue
				}
				op := mkOp(rnd, c, path(), vals)
				// twins: a key that differs from an existing one in exactly one character and gets the SAME value - leaves with
				// equal remaining path and equal value in two slots of one branch (node identity must still tell them apart)
				if len(view[c]) > 0 && rnd.Intn(100) < 12 {
					ks := make([]string, 0, len(view[c]))
					for k := range view[c] {
						if len(k) >= 2 {
							ks = append(ks, k)
						}
					}
					sort.Strings(ks)
					if len(ks) > 0 {
						k := ks[rnd.Intn(len(ks))]
						q := []byte(k)
						i := rnd.Intn(len(q))
						q[i] = "0123456789abcdef"[(strings.IndexByte("0123456789abcdef", q[i])+1+rnd.Intn(15))%16]
						op = ROp{Op: "ins", T: c, P: bridge.Chars(q), V: view[c][k]}
					}
				}
				// remember what the path held in this child's view before the change
				key := string(joinChars(op.P))
				prev, had := view[c][key]
				if !had {
					prev = ""
				}
				changed[c] = append(changed[c], ROp{P: op.P, V: prev})
				if op.Op == "ins" {
					view[c][key] = op.V
				} else {
					delete(view[c], key)
				}
				h.Ops = append(h.Ops, op)
			case x < 90:
				i := rnd.Intn(len(open))
				h.Ops = append(h.Ops, ROp{Op: "merge", T: open[i]})
				view[0] = view[open[i]]
				open = append(open[:i], open[i+1:]...)
			default:
				i := rnd.Intn(len(open))
				h.Ops = append(h.Ops, ROp{Op: "discard", T: open[i]})
				open = append(open[:i], open[i+1:]...)
			}
		}
		for _, c := range open {
			if rnd.Intn(2) == 0 {
				h.Ops = append(h.Ops, ROp{Op: "merge", T: c})
			} else {
				h.Ops = append(h.Ops, ROp{Op: "discard", T: c})
			}
		}
		if !persist {
			break
		}
		crash := rnd.Intn(6) == 0
		if crash {
			h.Ops = append(h.Ops, ROp{Op: "crash", K: rnd.Intn(3)})
		}
		h.Ops = append(h.Ops, ROp{Op: "save"})
		if crash {
			// re-execute the interrupted round at the same version: replay the ops of this round
			start := len(h.Ops) - 1
			for start >= 0 && h.Ops[start].Op != "round" {
				start--
			}
			redo := append([]ROp(nil), h.Ops[start:len(h.Ops)-2]...)
			h.Ops = append(h.Ops, redo...)
			h.Ops = append(h.Ops, ROp{Op: "save"})
		}
		lastSaved = ver
		if !crash && rnd.Intn(10) == 0 {
			// execute this round once more at the same version, with whatever the generator draws next
			h.Ops = append(h.Ops, ROp{Op: "rerun"})
			continue
		}
		if rnd.Intn(4) == 0 && lastSaved > 1 {
			pv := lastSaved - int64(rnd.Intn(3))
			if rnd.Intn(4) == 0 {
				h.Ops = append(h.Ops, ROp{Op: "crash", K: rnd.Intn(3)})
				h.Ops = append(h.Ops, ROp{Op: "prune", Ver: pv})
			}
			h.Ops = append(h.Ops, ROp{Op: "prune", Ver: pv})
		}
		ver += int64(1 + rnd.Intn(2))
	}
	return h
}

// GenRoundsMaxVal is a short persistent history around a value of exactly the largest accepted size (every observation
// re-hashes the 10 MiB node, so it is kept to a handful of operations): the value is saved on a leaf, moves onto a branch
// (a longer key is added below it), comes back to a leaf (lift), survives a crash inside a save and a prune.
func GenRoundsMaxVal(rnd *rand.Rand) RHist {
	h := RHist{Persist: true, Quiet: true}
	big := MaxValToken('m')
	pre := []string{"c", "d"}
	if rnd.Intn(2) == 0 {
		pre = []string{"5"}
	}
	P := func(tail string) []string {
		return append(append([]string(nil), pre...), bridge.Chars([]byte(tail))...)
	}
	h.Ops = append(h.Ops,
		ROp{Op: "round", Ver: 1}, ROp{Op: "ins", T: 0, P: P("56"), V: big}, ROp{Op: "ins", T: 0, P: P("00"), V: "a"}, ROp{Op: "save"},
		ROp{Op: "round", Ver: 2}, ROp{Op: "open", T: 1}, ROp{Op: "ins", T: 1, P: P("5678"), V: "b"}, ROp{Op: "merge", T: 1}, ROp{Op: "save"},
		ROp{Op: "round", Ver: 3}, ROp{Op: "del", T: 0, P: P("5678")}, ROp{Op: "del", T: 0, P: P("00")},
		ROp{Op: "crash", K: rnd.Intn(2)}, ROp{Op: "save"},
		ROp{Op: "round", Ver: 3}, ROp{Op: "del", T: 0, P: P("5678")}, ROp{Op: "del", T: 0, P: P("00")}, ROp{Op: "save"},
		ROp{Op: "prune", Ver: 3})
	return h
}

// GenRoundsBulk draws a large-scope multi-round history: rounds whose change set holds several hundred nodes (one
// SaveChanges = one multi-put of that size), directly on the block trie and through a merged transaction, with
// dead-node records, a prune and a crash inside a save.
func GenRoundsBulk(rnd *rand.Rand, big bool) RHist {
	h := RHist{Persist: true, Quiet: true}
	seed := int64(1 + rnd.Intn(1000000))
	ver := int64(1)
	nrounds := 3 + rnd.Intn(2)
	if big {
		// eight heavy rounds and ONE prune at the end: more than a thousand dead nodes go in one pruning (the persistent
		// store deletes them in several batches)
		nrounds = 8
	}
	for rd := 0; rd < nrounds; rd++ {
		h.Ops = append(h.Ops, ROp{Op: "round", Ver: ver})
		n := 150 + rnd.Intn(250)
		if rd > 0 {
			n = 40 + rnd.Intn(200)
		}
		if big {
			n = 400 + rnd.Intn(150)
		}
		if rnd.Intn(2) == 0 {
			h.Ops = append(h.Ops, ROp{Op: "bulk", T: 0, K: n, Ver: seed})
		} else {
			h.Ops = append(h.Ops, ROp{Op: "open", T: 1}, ROp{Op: "bulk", T: 1, K: n, Ver: seed}, ROp{Op: "merge", T: 1})
		}
		seed++
		if rd == 1 && rnd.Intn(2) == 0 {
			h.Ops = append(h.Ops, ROp{Op: "crash", K: rnd.Intn(2)}, ROp{Op: "save"},
				ROp{Op: "round", Ver: ver}, ROp{Op: "bulk", T: 0, K: n, Ver: seed - 1})
		}
		h.Ops = append(h.Ops, ROp{Op: "save"})
		if !big && rd >= 1 && rnd.Intn(2) == 0 {
			h.Ops = append(h.Ops, ROp{Op: "prune", Ver: ver})
		}
		if big && rd == nrounds-1 {
			h.Ops = append(h.Ops, ROp{Op: "crash", K: 1}, ROp{Op: "prune", Ver: ver}, ROp{Op: "prune", Ver: ver})
		}
		ver++
	}
	return h
}

func mkOp(rnd *rand.Rand, t int, p []byte, vals []string) ROp {
	if rnd.Intn(100) < 62 {
		return ROp{Op: "ins", T: t, P: bridge.Chars(p), V: vals[rnd.Intn(len(vals))]}
	}
	return ROp{Op: "del", T: t, P: bridge.Chars(p)}
}

// AOp is one abstract action of a behaviour of MPTPersist.tla.
type AOp struct {
	A  string `json:"a"`
	K  int    `json:"k"`
	V  string `json:"v"`
	PV int64  `json:"pv"`
}

var persistPaths = []string{"0000", "0011", "01", "1000"}

// TranslatePersist maps a behaviour of the design model (start / op / savebatch / recorddead / startprune /
// prunedelete / prunedrop / crash) to executor operations: a crash between SaveBatch and RecordDead, or inside the
// prune's delete stream, becomes an armed crash of the following storage operation.
func TranslatePersist(aops []AOp) RHist {
	h := RHist{Persist: true, Quiet: true}
	var done int64
	for i := 0; i < len(aops); i++ {
		a := aops[i]
		switch a.A {
		case "start":
			h.Ops = append(h.Ops, ROp{Op: "round", Ver: done + 1})
		case "op":
			p := bridge.Chars([]byte(persistPaths[a.K%len(persistPaths)]))
			if a.V == "" {
				h.Ops = append(h.Ops, ROp{Op: "del", T: 0, P: p})
			} else {
				h.Ops = append(h.Ops, ROp{Op: "ins", T: 0, P: p, V: a.V})
			}
		case "savebatch":
			if i+1 < len(aops) && aops[i+1].A == "crash" {
				h.Ops = append(h.Ops, ROp{Op: "crash", K: 1}, ROp{Op: "save"})
				i++
			} else {
				h.Ops = append(h.Ops, ROp{Op: "save"})
				done++
				if i+1 < len(aops) && aops[i+1].A == "recorddead" {
					i++
				}
			}
		case "startprune":
			j := 0
			k := i + 1
			for k < len(aops) && aops[k].A == "prunedelete" {
				j++
				k++
			}
			if k < len(aops) && aops[k].A == "crash" {
				if j > 1 {
					j = 1
				}
				h.Ops = append(h.Ops, ROp{Op: "crash", K: j}, ROp{Op: "prune", Ver: a.PV})
				i = k
			} else {
				h.Ops = append(h.Ops, ROp{Op: "prune", Ver: a.PV})
				if k < len(aops) && aops[k].A == "prunedrop" {
					i = k
				} else {
					i = k - 1
				}
			}
		}
	}
	return h
}
