----------------------------- MODULE WMPTAlg_MC -----------------------------
EXTENDS WMPTAlg
\* six keys of three nibbles: siblings at the last nibble (0/1/2 below 0,0), a sibling one level up, two other root children
AKeys == { <<0, 0, 0>>, <<0, 0, 1>>, <<0, 0, 2>>, <<0, 1, 0>>, <<1, 0, 0>>, <<2, 2, 2>> }
AKeys5 == AKeys \ { <<2, 2, 2>> }
AVals == {"a", "b"}
AWts == {1, 2}
=============================================================================
