-------------------------------- MODULE MPT --------------------------------
(***************************************************************************)
(* State trie of 0chain/common (core/util/merkle_patricia_trie.go) as a    *)
(* map from paths to values together with the CANONICAL SHAPE of the trie  *)
(* that stores a given content.                                            *)
(*                                                                         *)
(*   content  : function  path -> value   (paths are sequences of          *)
(*              one-character strings "0".."f", values non-empty strings)  *)
(*                                                                         *)
(* The operators below are the oracle used by the trace specification      *)
(* MPTTrace (C01, C02, C14) and by MPTTxn / MPTPersist / MPTSync / MPTConc.*)
(* Hashes are abstracted structurally: the identity of a node is its       *)
(* content term, which is what a collision-free hash means.                *)
(***************************************************************************)
EXTENDS Naturals, Sequences, FiniteSets, TLC

CONSTANTS Paths,    \* universe of paths of the design configuration
          Values    \* universe of values of the design configuration

VARIABLES content

NoVal == ""
Nil   == [t |-> "N"]
EmptyContent == [p \in {} |-> NoVal]

---------------------------------------------------------------------------
(* Map semantics (C01)                                                     *)

Put(c, p, v) == [q \in (DOMAIN c) \cup {p} |-> IF q = p THEN v ELSE c[q]]
Del(c, p)    == [q \in (DOMAIN c) \ {p} |-> c[q]]
Lookup(c, p) == IF p \in DOMAIN c THEN c[p] ELSE NoVal
Pairs(c)     == {<<p, c[p]>> : p \in DOMAIN c}

\* Required response of each operation: new content and result class.
InsertResp(c, p, v) == [c |-> Put(c, p, v), res |-> "ok"]
DeleteResp(c, p)    == IF p \in DOMAIN c
                       THEN [c |-> Del(c, p), res |-> "ok"]
                       ELSE [c |-> c, res |-> "notpresent"]
LookupResp(c, p)    == IF p \in DOMAIN c
                       THEN [res |-> "ok", val |-> c[p]]
                       ELSE [res |-> "notpresent", val |-> NoVal]

---------------------------------------------------------------------------
(* Canonical shape (C02).  Terms:                                          *)
(*   [t |-> "N"]                                    empty trie             *)
(*   [t |-> "L", pre, path, val]                    leaf at position pre   *)
(*   [t |-> "E", path, kid]                         extension (kid is "F") *)
(*   [t |-> "F", val, kids]   kids: record keyed by the next path element  *)

Drop(s, n) == SubSeq(s, n + 1, Len(s))
Take(s, n) == SubSeq(s, 1, n)

MinLen(S) == CHOOSE n \in {Len(p) : p \in S} : \A p \in S : n <= Len(p)

\* length of the longest common prefix of a non-empty set of sequences
LcpLen(S) ==
  LET m == MinLen(S)
      ok(n) == \A p, q \in S : Take(p, n) = Take(q, n)
  IN  CHOOSE n \in 0..m : ok(n) /\ (n = m \/ ~ok(n + 1))

RECURSIVE CanonAt(_, _)
\* S: non-empty set of <<suffix, value>> pairs below position pre
CanonAt(S, pre) ==
  IF Cardinality(S) = 1
  THEN LET e == CHOOSE x \in S : TRUE
       IN  [t |-> "L", pre |-> pre, path |-> e[1], val |-> e[2]]
  ELSE LET n == LcpLen({e[1] : e \in S})
       IN  IF n > 0
           THEN LET lp == Take((CHOOSE x \in S : TRUE)[1], n)
                IN  [t |-> "E", path |-> lp,
                     kid |-> CanonAt({<<Drop(e[1], n), e[2]>> : e \in S}, pre \o lp)]
           ELSE LET here  == {e \in S : e[1] = <<>>}
                    below == S \ here
                    chars == {e[1][1] : e \in below}
                IN  [t |-> "F",
                     val |-> IF here = {} THEN NoVal ELSE (CHOOSE x \in here : TRUE)[2],
                     kids |-> [ch \in chars |->
                                CanonAt({<<Drop(e[1], 1), e[2]>> : e \in {x \in below : x[1][1] = ch}},
                                        Append(pre, ch))]]

Canon(c) == IF DOMAIN c = {} THEN Nil ELSE CanonAt(Pairs(c), <<>>)

\* lookup by descending a term
RECURSIVE Walk(_, _)
Walk(term, p) ==
  CASE term.t = "L" -> IF term.path = p THEN term.val ELSE NoVal
    [] term.t = "E" -> IF Len(p) >= Len(term.path) /\ Take(p, Len(term.path)) = term.path
                       THEN Walk(term.kid, Drop(p, Len(term.path)))
                       ELSE NoVal
    [] term.t = "F" -> IF p = <<>> THEN term.val
                       ELSE IF p[1] \in DOMAIN term.kids
                            THEN Walk(term.kids[p[1]], Drop(p, 1))
                            ELSE NoVal
    [] OTHER -> NoVal

\* all path/value pairs stored in a term below position pre
RECURSIVE ItemsAt(_, _)
ItemsAt(term, pre) ==
  CASE term.t = "L" -> {<<pre \o term.path, term.val>>}
    [] term.t = "E" -> ItemsAt(term.kid, pre \o term.path)
    [] term.t = "F" -> (IF term.val = NoVal THEN {} ELSE {<<pre, term.val>>})
                       \cup UNION {ItemsAt(term.kids[ch], Append(pre, ch)) : ch \in DOMAIN term.kids}
    [] OTHER -> {}
Items(term) == ItemsAt(term, <<>>)

\* well-formedness of a term at position pre
RECURSIVE WFAt(_, _)
WFAt(term, pre) ==
  CASE term.t = "L" -> term.pre = pre /\ term.val # NoVal
    [] term.t = "E" -> /\ Len(term.path) > 0
                       /\ term.kid.t = "F"
                       /\ WFAt(term.kid, pre \o term.path)
    [] term.t = "F" -> /\ \/ Cardinality(DOMAIN term.kids) >= 2
                          \/ (term.val # NoVal /\ Cardinality(DOMAIN term.kids) >= 1)
                       /\ \A ch \in DOMAIN term.kids : WFAt(term.kids[ch], Append(pre, ch))
    [] OTHER -> FALSE
WF(term) == term = Nil \/ WFAt(term, <<>>)

---------------------------------------------------------------------------
(* Design-level specification: every map history over a small universe.    *)

Init == content = EmptyContent

Insert(p, v) == content' = InsertResp(content, p, v).c
Delete(p)    == content' = DeleteResp(content, p).c

Next == \E p \in Paths : (\E v \in Values : Insert(p, v)) \/ Delete(p)

Spec == Init /\ [][Next]_content

TypeOK == DOMAIN content \subseteq Paths /\ \A p \in DOMAIN content : content[p] \in Values

\* oracle sanity + term-level C02: the canonical term determines the content
\* (so Canon is injective), answers lookups like the map, and is well formed.
CanonRoundTrip == Items(Canon(content)) = Pairs(content)
CanonWalk      == \A p \in Paths : Walk(Canon(content), p) = Lookup(content, p)
CanonWF        == WF(Canon(content))
=============================================================================
