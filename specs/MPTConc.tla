------------------------------- MODULE MPTConc -------------------------------
(***************************************************************************)
(* One state trie used by several goroutines (C16): linearizability with   *)
(* respect to the map semantics of MPT.tla, checked in SEARCH MODE.        *)
(*                                                                         *)
(* The trace is the call/return history of a real concurrent run, ordered  *)
(* by a global atomic counter.  The order in which overlapping operations  *)
(* take effect is not logged: TLC chooses it.                              *)
(*                                                                         *)
(*   Call(g)  consume a call record: the operation becomes pending         *)
(*   Lin(g)   a pending operation takes effect atomically on `content`;    *)
(*            its response is fixed by the sequential specification        *)
(*   Ret(g)   consume a return record: only possible if the operation has  *)
(*            taken effect and the recorded response equals the fixed one  *)
(*                                                                         *)
(* A history is accepted iff some behaviour consumes every record and the  *)
(* final content equals the content iterated from the real trie.           *)
(***************************************************************************)
EXTENDS MPT, Json, IOUtils

Trace == ndJsonDeserialize(IOEnv.TRACE)

VARIABLES l,      \* next record
          pend,   \* goroutine -> pending operation record
          judged  \* current trace is judged for linearizability (FALSE: race-only run)

cvars == <<content, l, pend, judged>>

ToSet(s) == {s[i] : i \in DOMAIN s}
FromItems(items) ==
  LET S == ToSet(items) IN [p \in {it[1] : it \in S} |-> (CHOOSE it \in S : it[1] = p)[2]]
FnPut(f, k, v) == [x \in (DOMAIN f) \cup {k} |-> IF x = k THEN v ELSE f[x]]
FnDel(f, k) == [x \in (DOMAIN f) \ {k} |-> f[x]]

CInit == TLCSet(1, 1) /\ content = EmptyContent /\ l = 1 /\ pend = [x \in {} |-> 0] /\ judged = TRUE

Cur == Trace[l]

Reset ==
  /\ l <= Len(Trace) /\ Cur.op = "reset"
  /\ DOMAIN pend = {}
  /\ content' = FromItems(Cur.init) /\ judged' = Cur.judged /\ pend' = pend /\ l' = l + 1

Call ==
  /\ l <= Len(Trace) /\ Cur.op = "call"
  /\ Cur.g \notin DOMAIN pend
  /\ pend' = FnPut(pend, Cur.g, [f |-> Cur.f, p |-> Cur.p, v |-> Cur.v, lin |-> FALSE, res |-> "", val |-> "", items |-> {}])
  /\ l' = l + 1 /\ UNCHANGED <<content, judged>>

Lin(g) ==
  /\ g \in DOMAIN pend /\ ~pend[g].lin
  /\ LET o == pend[g] IN
     CASE o.f = "ins" -> /\ content' = InsertResp(content, o.p, o.v).c
                         /\ pend' = FnPut(pend, g, [o EXCEPT !.lin = TRUE, !.res = "ok"])
       [] o.f = "del" -> LET r == DeleteResp(content, o.p) IN
                         /\ content' = r.c
                         /\ pend' = FnPut(pend, g, [o EXCEPT !.lin = TRUE, !.res = r.res])
       [] o.f = "get" -> LET r == LookupResp(content, o.p) IN
                         /\ content' = content
                         /\ pend' = FnPut(pend, g, [o EXCEPT !.lin = TRUE, !.res = r.res, !.val = r.val])
       [] o.f \in {"iter", "changes", "save"} ->    \* snapshot reads: iteration, change-set read, change-set save
                          /\ content' = content
                          /\ pend' = FnPut(pend, g, [o EXCEPT !.lin = TRUE, !.res = "ok", !.items = Pairs(content)])
       [] OTHER -> /\ content' = content
                   /\ pend' = FnPut(pend, g, [o EXCEPT !.lin = TRUE, !.res = "ok"])
  /\ UNCHANGED <<l, judged>>

Ret ==
  /\ l <= Len(Trace) /\ Cur.op = "ret"
  /\ Cur.g \in DOMAIN pend
  /\ LET o == pend[Cur.g] IN
       /\ o.lin
       /\ Cur.res # "panic"
       /\ \/ ~judged
          \/ /\ Cur.res = o.res
             /\ (o.f = "get" => Cur.val = o.val)
             /\ (o.f = "iter" => ToSet(Cur.items) = o.items /\ Len(Cur.items) = Cardinality(o.items))
             \* a change set (read by GetChanges, written by SaveChanges), laid over the nodes that existed before
             \* the run, is one complete trie without foreign nodes, and that trie holds the content of the
             \* linearization point
             /\ ((o.f \in {"changes", "save"} /\ Cur.snap) =>
                    Cur.snapok /\ ToSet(Cur.items) = o.items /\ Len(Cur.items) = Cardinality(o.items))
  /\ pend' = FnDel(pend, Cur.g)
  /\ l' = l + 1 /\ UNCHANGED <<content, judged>>

Final ==
  /\ l <= Len(Trace) /\ Cur.op = "final"
  /\ DOMAIN pend = {}
  /\ \/ ~judged
     \/ /\ Cur.ires = "ok" /\ ToSet(Cur.items) = Pairs(content) /\ Len(Cur.items) = Cardinality(DOMAIN content)
        /\ Cur.keysOK
        /\ Cur.shape = Canon(content)    \* final root = root of the sequential execution (single version)
        \* lookups of keys that no update of the run touches returned their value every time
        /\ (("constbad" \in DOMAIN Cur) => Cur.constbad = 0)
  /\ l' = l + 1 /\ UNCHANGED <<content, pend, judged>>

CNext == Reset \/ Call \/ Ret \/ Final \/ \E g \in DOMAIN pend : Lin(g)

CSpec == CInit /\ [][CNext]_cvars

\* high-water mark of consumed records (register 1); evaluated in every state
Mark == TLCSet(1, IF TLCGet(1) < l THEN l ELSE TLCGet(1))
Accepted == TLCGet(1) = Len(Trace) + 1
Post == PrintT(<<"VERIF_RESULT", TLCGet(1) - 1, Len(Trace), IF Accepted THEN 0 ELSE 1,
                 IF Accepted THEN {} ELSE {<<Trace[TLCGet(1)].tid, TLCGet(1), Trace[TLCGet(1)].op, {"notlinearizable"}, {}>>}>>)
=============================================================================
