SPECIFICATION TraceSpec
CONSTANTS
  Hashes = {}
  PrevFn = {}
  BCs = {}
  BCHashFn = {}
  TXs = {}
  TXBlockFn = {}
  Keys = {}
  Vals = {}
INVARIANT Report
CHECK_DEADLOCK FALSE
