------------------------- MODULE StateCacheSchedTrace -------------------------
(***************************************************************************)
(* Judges replays of TLC-generated schedules of StateCacheConc.tla on real *)
(* goroutines (C08).  One event per replayed schedule: the scope (chain of *)
(* blocks, the value each writes, which were committed up front, which     *)
(* were committed concurrently), the result of every concurrent lookup and *)
(* of a sequential lookup at every block afterwards.  The rule is the      *)
(* property-level one only:                                                *)
(*    hit => value = Truth(block)      (Truth from the block tree alone)   *)
(*    committed writes are found afterwards when the chain below is        *)
(*    committed (no capacity pressure in these scopes)                     *)
(***************************************************************************)
EXTENDS Naturals, Sequences, FiniteSets, TLC, Json, IOUtils

Trace == ndJsonDeserialize(IOEnv.TRACE)

VARIABLES l, bad, nbad, ntr
tvars == <<l, bad, nbad, ntr>>

MaxBad == 40
\* deviations are kept per class (operation, failed checks, deviation flags): a flood of one class never hides another
KeepBad(bd, op, fl, dv) == Cardinality({b \in bd : b[3] = op /\ b[4] = fl /\ b[5] = dv}) < 6 /\ Cardinality(bd) < 40 * MaxBad
Miss == "#miss"
ToSet(s) == {s[i] : i \in DOMAIN s}
Flag(cond, name) == IF cond THEN {} ELSE {name}

IdxOf(blocks, b) == CHOOSE i \in 1..Len(blocks) : blocks[i] = b
RECURSIVE TruthAt(_, _)
TruthAt(writes, i) == IF i = 0 THEN Miss ELSE IF writes[i] # "" THEN writes[i] ELSE TruthAt(writes, i - 1)

Res(x) == IF x[3] = "hit" THEN x[4] ELSE Miss    \* reader result <<id, block, res, val>>
FRes(x) == IF x[2] = "hit" THEN x[3] ELSE Miss   \* final <<block, res, val>>

EventFlags(e) ==
  LET committed == {e.blocks[i] : i \in 1..e.pre} \cup ToSet(e.committers)
      truth(b) == TruthAt(e.writes, IdxOf(e.blocks, b))
  IN   Flag(\A x \in ToSet(e.results) : x[3] # "panic", "panic")
  \cup Flag(\A x \in ToSet(e.results) : Res(x) = Miss \/ Res(x) = truth(x[2]), "wrongvalue")
  \cup Flag(\A x \in ToSet(e.final) : FRes(x) = Miss \/ FRes(x) = truth(x[1]), "poison")
  \cup Flag(\A c \in ToSet(e.committers) :
              LET i == IdxOf(e.blocks, c) IN
              (e.writes[i] # "" /\ \A j \in 1..i : e.blocks[j] \in committed)
                 => \E x \in ToSet(e.final) : x[1] = c /\ FRes(x) = e.writes[i], "notfound")
  \* a lookup at a block by the goroutine whose Commit of that block has returned finds the block's write
  \cup Flag("after" \notin DOMAIN e \/
            \A x \in ToSet(e.after) : LET i == IdxOf(e.blocks, x[1]) IN
                                         e.writes[i] = "" \/ FRes(x) = e.writes[i], "aftercommit")

TraceInit == l = 1 /\ bad = {} /\ nbad = 0 /\ ntr = 0

TraceNext ==
  /\ l <= Len(Trace)
  /\ LET e == Trace[l]
         f == EventFlags(e)
     IN  /\ l' = l + 1
         /\ ntr' = ntr + 1
         /\ nbad' = IF f = {} THEN nbad ELSE nbad + 1
         /\ bad' = IF f = {} \/ ~KeepBad(bad, e.op, f, {}) THEN bad ELSE bad \cup {<<e.tid, l, e.op, f, {}>>}

TraceSpec == TraceInit /\ [][TraceNext]_tvars
Report == l <= Len(Trace) \/ PrintT(<<"VERIF_RESULT", l - 1, ntr, nbad, bad>>)
=============================================================================
