package exec

import (
	"fmt"
	"math/rand"
	"strconv"
	"strings"
	"sync"

	"verifharness/tr"

	"github.com/0chain/common/core/logging"
	"go.uber.org/zap"
	"go.uber.org/zap/zapcore"
)

// LOp is one step of a log-buffer history.
type LOp struct {
	Op string `json:"op"` // write | derive | snapshot
	Lg int    `json:"lg"` // logger index (0 = root)
	N  int    `json:"n"`  // write: number of entries
}

// LHist is a sequential log-buffer history.
type LHist struct {
	Ops []LOp `json:"ops"`
}

// LStats collects coverage.
type LStats struct {
	Traces, Events, Panics, Writes int
	Distinct                       map[string]bool
}

func newMemLogger() *logging.MemLogger {
	cfg := zap.NewProductionEncoderConfig()
	return logging.NewMemLogger(zapcore.NewJSONEncoder(cfg), zap.NewAtomicLevelAt(zapcore.DebugLevel))
}

func snapshotIDs(ml *logging.MemLogger) (ids []int, ok bool) {
	ok = true
	for _, e := range ml.GetLogs() {
		if e == nil {
			ok = false
			continue
		}
		n, err := strconv.Atoi(e.Entry.Message)
		if err != nil {
			ok = false
			continue
		}
		// the fields written with an entry stay with that entry
		if len(e.Context) != 1 || e.Context[0].Key != "id" || e.Context[0].Integer != int64(n) {
			ok = false
		}
		ids = append(ids, n)
	}
	if ids == nil {
		ids = []int{}
	}
	return
}

// writeLogsAgree reads the buffer through its second reader, WriteLogs (console lines, newest first, fields included), and
// compares it with the GetLogs snapshot taken just before: "ok", "differs" (the lines parse but show other entries / other
// fields) or "format" (the lines do not have the tab-separated console layout: not judged).
func writeLogsAgree(ml *logging.MemLogger, ids []int) string {
	var buf strings.Builder
	ml.WriteLogs(&buf, logging.IncludeFields)
	lines := strings.Split(strings.TrimRight(buf.String(), "\n"), "\n")
	if buf.Len() == 0 {
		lines = nil
	}
	var got []int
	for _, ln := range lines {
		toks := strings.Split(ln, "\t")
		msg, fields := -1, ""
		for _, t := range toks {
			if n, err := strconv.Atoi(t); err == nil && msg < 0 {
				msg = n
			}
			if strings.HasPrefix(t, "{") {
				fields = t
			}
		}
		if msg < 0 || fields == "" {
			return "format"
		}
		if !strings.Contains(fields, fmt.Sprintf("\"id\": %d}", msg)) && !strings.Contains(fields, fmt.Sprintf("\"id\":%d}", msg)) {
			return "differs"
		}
		got = append(got, msg)
	}
	if len(got) != len(ids) {
		return "differs"
	}
	for i := range got {
		if got[i] != ids[i] {
			return "differs"
		}
	}
	return "ok"
}

// RunLogRing executes one sequential history: entries are numbered 1,2,3,... in write order.
func RunLogRing(w *tr.Writer, st *LStats, tid int, h LHist) {
	w.NextTrace()
	st.Traces++
	ml := newMemLogger()
	cores := []zapcore.Core{ml.GetCore()}
	// every other history goes through real zap loggers (zap.New(core), Logger.With, Logger.Info): Check and With are then
	// reached the way an application reaches them
	viaZap := tid%2 == 1
	loggers := []*zap.Logger{zap.New(ml.GetCore())}
	next := 0
	emit := func(ev map[string]any) {
		ev["tid"] = tid
		w.Emit(ev)
		st.Events++
	}
	emit(map[string]any{"op": "reset", "cap": logging.BufferSize})
	sig := ""
	for oi, op := range h.Ops {
		sig += op.Op[:1]
		switch op.Op {
		case "derive":
			parent := cores[op.Lg%len(cores)]
			res := Guard(func() string {
				if viaZap {
					loggers = append(loggers, loggers[op.Lg%len(loggers)].With(zap.Int("derived", len(cores))))
					cores = append(cores, loggers[len(loggers)-1].Core())
					return "ok"
				}
				cores = append(cores, parent.With([]zapcore.Field{zap.Int("derived", len(cores))}))
				return "ok"
			})
			emit(map[string]any{"op": "derive", "lg": op.Lg % len(cores), "res": res})
		case "write":
			c := cores[op.Lg%len(cores)]
			// sizes of the generators are written relative to a capacity of 1024: keep their distance to the real one
			if op.N >= 512 && op.N-1024+logging.BufferSize > 0 {
				op.N = op.N - 1024 + logging.BufferSize
			}
			first := next + 1
			res := Guard(func() string {
				for i := 0; i < op.N; i++ {
					next++
					if viaZap {
						loggers[op.Lg%len(loggers)].Info(strconv.Itoa(next), zap.Int("id", next))
						continue
					}
					if err := c.Write(zapcore.Entry{Message: strconv.Itoa(next), Level: zapcore.InfoLevel}, []zapcore.Field{zap.Int("id", next)}); err != nil {
						return "err"
					}
				}
				return "ok"
			})
			st.Writes += op.N
			emit(map[string]any{"op": "write", "lg": op.Lg % len(cores), "n": op.N, "first": first, "last": next, "res": res})
		case "snapshot":
			var ids []int
			ok := false
			wl := "ok"
			res := Guard(func() string {
				ids, ok = snapshotIDs(ml)
				// the console rendering of a full buffer is slow: the final snapshot of every third history and every sixth other one
				if (oi == len(h.Ops)-1 && tid%3 == 0) || (oi+tid)%6 == 0 {
					wl = writeLogsAgree(ml, ids)
				}
				return "ok"
			})
			if ids == nil {
				ids = []int{}
			}
			emit(map[string]any{"op": "snapshot", "ids": ids, "ok": ok, "res": res, "wl": wl})
		}
	}
	st.Distinct[sig] = true
}

// RunLogRingConc: goroutines write unique messages "g.s" through their own
// (root or derived) loggers concurrently; one snapshot at the end.
func RunLogRingConc(w *tr.Writer, st *LStats, tid int, r *rand.Rand) {
	w.NextTrace()
	st.Traces++
	ml := newMemLogger()
	ng := 2 + r.Intn(7)
	counts := make([]int, ng)
	cores := make([]zapcore.Core, ng)
	for g := 0; g < ng; g++ {
		counts[g] = []int{5, 100, 300, 700, 1100}[r.Intn(5)]*logging.BufferSize/1024 + r.Intn(50)
		if r.Intn(2) == 0 {
			cores[g] = ml.GetCore()
		} else {
			cores[g] = ml.GetCore().With([]zapcore.Field{zap.Int("g", g)})
		}
	}
	var wg sync.WaitGroup
	panics := 0
	var mu sync.Mutex
	for g := 0; g < ng; g++ {
		wg.Add(1)
		g := g
		go func() {
			defer wg.Done()
			res := Guard(func() string {
				for s := 1; s <= counts[g]; s++ {
					_ = cores[g].Write(zapcore.Entry{Message: fmt.Sprintf("%d.%d", g, s)}, nil)
					if s%97 == 0 {
						_ = ml.GetLogs() // a concurrent reader
					}
				}
				return "ok"
			})
			if res != "ok" {
				mu.Lock()
				panics++
				mu.Unlock()
			}
		}()
	}
	wg.Wait()
	var snap []any
	ok := true
	res := Guard(func() string {
		for _, e := range ml.GetLogs() {
			if e == nil {
				ok = false
				continue
			}
			parts := strings.SplitN(e.Entry.Message, ".", 2)
			if len(parts) != 2 {
				ok = false
				continue
			}
			a, _ := strconv.Atoi(parts[0])
			b, _ := strconv.Atoi(parts[1])
			snap = append(snap, []int{a, b})
		}
		return "ok"
	})
	if snap == nil {
		snap = []any{}
	}
	total := 0
	for _, c := range counts {
		total += c
	}
	st.Writes += total
	st.Panics += panics
	w.Emit(map[string]any{"tid": tid, "op": "concsnapshot", "counts": counts, "snap": snap, "ok": ok && panics == 0, "res": res, "cap": logging.BufferSize})
	st.Events++
	st.Distinct[fmt.Sprint("c", ng, total > logging.BufferSize)] = true
}

// GenLogHist draws a random sequential history with totals below, at and far above the capacity.
func GenLogHist(r *rand.Rand) LHist {
	var h LHist
	nlog := 1
	sizes := []int{1, 2, 3, 10, 500, 1023, 1024, 1025, 2000}
	for i := 0; i < 3+r.Intn(10); i++ {
		switch x := r.Intn(10); {
		case x < 2:
			h.Ops = append(h.Ops, LOp{Op: "derive", Lg: r.Intn(nlog)})
			nlog++
		case x < 8:
			h.Ops = append(h.Ops, LOp{Op: "write", Lg: r.Intn(nlog), N: sizes[r.Intn(len(sizes))]})
		default:
			h.Ops = append(h.Ops, LOp{Op: "snapshot"})
		}
	}
	h.Ops = append(h.Ops, LOp{Op: "snapshot"})
	return h
}
