SPECIFICATION Spec
CONSTANTS
  NKeys = 2
  Vals <- MCVals
  Wt <- MCWt
  Depth = 4
  GenMode = TRUE
CHECK_DEADLOCK FALSE
