SPECIFICATION Spec
CONSTANTS
  Cap = 1024
  Sizes = {1, 2, 500, 1023, 1500}
  MaxLoggers = 3
  Depth = 5
  GenMode = TRUE
CHECK_DEADLOCK FALSE
