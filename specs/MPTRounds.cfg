SPECIFICATION TraceSpec
CONSTANTS
  Paths = {}
  Values = {}
INVARIANT Report
CHECK_DEADLOCK FALSE
