-------------------------- MODULE StateCacheConc_MC --------------------------
EXTENDS StateCacheConc
\* chain A0 <- A1 <- B <- C; A0 (writes v0) and A1 (no write) committed at the start
MCBlocks == <<"A0", "A1", "B", "C">>
WritesBC == [b \in {"A0", "A1", "B", "C"} |-> CASE b = "A0" -> "v0" [] b = "A1" -> "" [] b = "B" -> "v1" [] b = "C" -> "v2"]
WritesB  == [b \in {"A0", "A1", "B", "C"} |-> CASE b = "A0" -> "v0" [] b = "A1" -> "" [] b = "B" -> "v1" [] b = "C" -> ""]
WritesOnlyB == [b \in {"A0", "A1", "B", "C"} |-> CASE b = "B" -> "v1" [] OTHER -> ""]
\* no per-key map exists at the start: both committers have to create it
WritesFreshBC == [b \in {"A0", "A1", "B", "C"} |-> CASE b = "B" -> "v1" [] b = "C" -> "v2" [] OTHER -> ""]
WritesNone == [b \in {"A0", "A1", "B", "C"} |-> CASE b = "A0" -> "v0" [] OTHER -> ""]
\* 1 committer (B) + 1 reader, every placement
R_A1 == [r1 |-> "A1"]
R_B  == [r1 |-> "B"]
R_C  == [r1 |-> "C"]
\* 2 committers + 2 readers
R_BC == [r1 |-> "B", r2 |-> "C"]
R_A1C == [r1 |-> "A1", r2 |-> "C"]
R_BB == [r1 |-> "B", r2 |-> "B"]
R_ABC == [r1 |-> "A1", r2 |-> "B", r3 |-> "C"]
R_BBC == [r1 |-> "B", r2 |-> "B", r3 |-> "C"]
R_BCC == [r1 |-> "B", r2 |-> "C", r3 |-> "C"]
CB == {"B"}
CC == {"C"}
CBC == {"B", "C"}
=============================================================================
