package main

import (
	"math/rand"

	"verifharness/exec"
	"verifharness/tr"
)

func init() { components["currency"] = runCurrency }

func runCurrency(args []string) (map[string]any, error) {
	c := newCommon("currency")
	c.fs.Parse(args)
	w, err := tr.New(*c.out, *c.shards)
	if err != nil {
		return nil, err
	}
	st := &exec.CurStats{Distinct: map[string]bool{}}
	exec.RunCurrency(w, st, rand.New(rand.NewSource(*c.seed)), *c.n)
	if err := w.Close(); err != nil {
		return nil, err
	}
	return map[string]any{"traces": st.Traces, "events": st.Events, "panics": st.Panics, "errors": st.Errors, "oks": st.Oks,
		"distinct_helper_outcomes": len(st.Distinct), "samples": w.Samples}, nil
}
