package exec

import (
	"bytes"
	"context"
	"encoding/json"
	"fmt"
	"math/rand"
	"sort"

	"verifharness/bridge"
	"verifharness/tr"

	"github.com/0chain/common/core/util"
	"github.com/linxGnu/grocksdb"
)

// SyncPlan is one missing-node scenario: a content, the positions of the
// nodes to remove (position = path consumed from the root to reach the node),
// and the repair variant.
type SyncPlan struct {
	Init      []json.RawMessage `json:"init"`   // [[pathchars, val], ...]
	Absent    [][]string        `json:"absent"` // node positions
	BuildVers []int64           `json:"buildvers,omitempty"`
	RepairVer int64             `json:"repairver,omitempty"`
	Extra     bool              `json:"extra,omitempty"` // donor also holds unrelated nodes
	Via       string            `json:"via,omitempty"`   // repair mechanism: "mergestate" / "mergedb" ("" = rotate)
}

type posNode struct {
	pos []byte
	key []byte
}

// positions walks the stored trie and returns every node with its position, pre-order.
func positions(root []byte, get func([]byte) []byte) []posNode {
	var out []posNode
	var rec func(key, pos []byte)
	rec = func(key, pos []byte) {
		data := get(key)
		if data == nil {
			return
		}
		n, err := bridge.ParseMPTNode(data)
		if err != nil {
			return
		}
		out = append(out, posNode{append([]byte(nil), pos...), append([]byte(nil), key...)})
		switch n.Kind {
		case 'E':
			rec(n.Child, append(append([]byte(nil), pos...), n.Path...))
		case 'F':
			for i, k := range n.Kids {
				if k != nil {
					rec(k, append(append([]byte(nil), pos...), "0123456789abcdef"[i]))
				}
			}
		}
	}
	if len(root) > 0 {
		rec(root, nil)
	}
	return out
}

// SyncStats collects coverage.
type SyncStats struct {
	Traces, Events, Panics int
	Distinct               map[string]bool
}

func parsePairs(raw []json.RawMessage) []bridge.Item {
	var items []bridge.Item
	for _, r := range raw {
		var pair []json.RawMessage
		var p []string
		var v string
		if json.Unmarshal(r, &pair) != nil || len(pair) != 2 || json.Unmarshal(pair[0], &p) != nil || json.Unmarshal(pair[1], &v) != nil {
			panic("bad pair " + string(r))
		}
		items = append(items, bridge.Item{Path: joinChars(p), Value: ValBytes(v)})
	}
	sort.Slice(items, func(i, j int) bool { return bytes.Compare(items[i].Path, items[j].Path) < 0 })
	return items
}

func posList(ps [][]byte) []any {
	sort.Slice(ps, func(i, j int) bool { return bytes.Compare(ps[i], ps[j]) < 0 })
	out := make([]any, 0, len(ps))
	for _, p := range ps {
		out = append(out, bridge.Chars(p))
	}
	return out
}

// RunSync executes one plan and emits its trace.
func RunSync(w *tr.Writer, st *SyncStats, tid int, plan SyncPlan, rnd *rand.Rand) {
	w.NextTrace()
	st.Traces++
	items := parsePairs(plan.Init)
	vers := plan.BuildVers
	if len(vers) == 0 {
		vers = []int64{1}
	}
	// build the full trie; entries are inserted at the listed versions round-robin (mixed origins)
	full := util.NewMemoryNodeDB()
	t := util.NewMerklePatriciaTrie(full, util.Sequence(vers[0]), nil, NewTxnCache())
	for i, it := range items {
		t.SetVersion(util.Sequence(vers[i%len(vers)]))
		if _, err := InsertScribbled(t, it.Path, it.Value); err != nil {
			panic(err)
		}
	}
	root := t.GetRoot()
	all := positions(root, RawGet(full))
	keyOf := map[string][]byte{}
	posOf := map[string][]byte{}
	for _, pn := range all {
		keyOf[string(pn.pos)] = pn.key
		posOf[string(pn.key)] = pn.pos
	}
	absentKeys := map[string]bool{}
	var absentPos [][]byte
	for _, a := range plan.Absent {
		p := joinChars(a)
		if k, ok := keyOf[string(p)]; ok && len(p) > 0 || (ok && len(all) > 0 && !bytes.Equal(k, root)) {
			if bytes.Equal(k, root) {
				continue
			}
			absentKeys[string(k)] = true
			absentPos = append(absentPos, p)
		}
	}
	// partial store and donor
	// the incomplete store rotates over the kinds a node really has: memory, persistent, a memory level over persistent
	var partial util.NodeDB = util.NewMemoryNodeDB()
	if k := tid % 4; k == 1 || k == 2 {
		pdirSeq++
		dir := fmt.Sprintf("stub-%d", pdirSeq)
		pp, err := util.NewPNodeDB(dir, "log")
		if err != nil {
			panic(err)
		}
		defer grocksdb.DropStore(dir)
		partial = pp
	}
	donor := util.NewMemoryNodeDB()
	_ = full.Iterate(context.Background(), func(ctx context.Context, key util.Key, node util.Node) error {
		if absentKeys[string(key)] {
			return donor.PutNode(key, node)
		}
		return partial.PutNode(key, node)
	})
	if tid%4 == 2 {
		partial = util.NewLevelNodeDB(util.NewMemoryNodeDB(), partial, false)
	}
	if plan.Extra {
		et := util.NewMerklePatriciaTrie(donor, util.Sequence(vers[0]+5), nil, NewTxnCache())
		et.Insert(util.Path("ee01"), Val([]byte("x")))
		et.Insert(util.Path("ee02"), Val([]byte("y")))
	}
	allPos := make([][]byte, 0, len(all))
	for _, pn := range all {
		allPos = append(allPos, pn.pos)
	}
	w.Emit(map[string]any{"tid": tid, "op": "syncinit", "init": ItemsJSON(items), "absent": posList(absentPos), "npos": len(all),
		"positions": posList(allPos), "vers": vers})
	st.Events++
	mapKeys := func(keys []util.Key) (out [][]byte, unknown int) {
		seen := map[string]bool{}
		for _, k := range keys {
			if p, ok := posOf[string(k)]; ok {
				if !seen[string(p)] {
					seen[string(p)] = true
					out = append(out, p)
				}
			} else {
				unknown++
			}
		}
		return
	}
	curVer := vers[len(vers)-1]
	fresh := func() *util.MerklePatriciaTrie {
		return util.NewMerklePatriciaTrie(partial, util.Sequence(curVer), root, NewTxnCache())
	}
	// HasMissingNodes
	{
		ev := map[string]any{"tid": tid, "op": "hasmissing"}
		ev["res"] = Guard(func() string {
			b, err := fresh().HasMissingNodes(context.Background())
			if err != nil {
				return "err"
			}
			if b {
				return "true"
			}
			return "false"
		})
		w.Emit(ev)
		st.Events++
	}
	// GetAllMissingNodes
	{
		ev := map[string]any{"tid": tid, "op": "allmissing"}
		ev["res"] = Guard(func() string {
			keys, err := fresh().GetAllMissingNodes()
			ps, unk := mapKeys(keys)
			ev["keys"] = posList(ps)
			ev["unknown"] = unk
			if err != nil {
				return ResClass(err)
			}
			return "ok"
		})
		if _, ok := ev["keys"]; !ok {
			ev["keys"], ev["unknown"] = []any{}, 0
		}
		w.Emit(ev)
		st.Events++
	}
	// GetMissingNodeKeys after exactly one full traversal on a fresh trie object
	{
		ev := map[string]any{"tid": tid, "op": "missingkeys"}
		ev["res"] = Guard(func() string {
			ft := fresh()
			_ = ft.Iterate(context.Background(), func(ctx context.Context, path util.Path, key util.Key, node util.Node) error { return nil },
				util.NodeTypeLeafNode|util.NodeTypeFullNode|util.NodeTypeExtensionNode|util.NodeTypeValueNode)
			ps, unk := mapKeys(ft.GetMissingNodeKeys())
			ev["keys"] = posList(ps)
			ev["unknown"] = unk
			return "ok"
		})
		if _, ok := ev["keys"]; !ok {
			ev["keys"], ev["unknown"] = []any{}, 0
		}
		w.Emit(ev)
		st.Events++
	}
	// lookups for every stored path and a few absent ones
	{
		var gets []any
		ft := fresh()
		paths := [][]byte{}
		for _, it := range items {
			paths = append(paths, it.Path)
		}
		paths = append(paths, []byte(""), []byte("00"), []byte("0f"), []byte("ffff"), []byte("0000ff"))
		for _, p := range paths {
			res, val := GetRaw(ft, p)
			if res == "panic" {
				st.Panics++
			}
			gets = append(gets, []any{bridge.Chars(p), res, bridge.Tok(val)})
		}
		w.Emit(map[string]any{"tid": tid, "op": "lookups", "gets": gets})
		st.Events++
	}
	// repair from the donor
	{
		// byte-for-byte snapshot of the donor
		snap := map[string][]byte{}
		_ = donor.Iterate(context.Background(), func(ctx context.Context, key util.Key, node util.Node) error {
			snap[string(key)] = node.Encode()
			return nil
		})
		rv := plan.RepairVer
		if rv == 0 {
			rv = curVer
		}
		rt := util.NewMerklePatriciaTrie(partial, util.Sequence(rv), root, NewTxnCache())
		ev := map[string]any{"tid": tid, "op": "repair", "ver": rv, "samever": rv == curVer && len(vers) == 1}
		// on two of three plans the repairing trie object has looked for its missing nodes before (detection, a failing
		// lookup): it then carries its own record of missing keys into the merge
		warmed := tid%3 != 0
		if warmed {
			Guard(func() string {
				_, _ = rt.HasMissingNodes(context.Background())
				if tid%3 == 1 {
					_, _ = rt.GetAllMissingNodes()
				}
				for _, it := range items {
					_, _ = rt.GetNodeValueRaw(util.Path(it.Path))
				}
				return "ok"
			})
		}
		ev["warmed"] = warmed
		// the two repair mechanisms: MergeDB through the trie, or MergeState straight into its store
		viaState := tid%5 >= 3
		if plan.Via != "" {
			viaState = plan.Via == "mergestate"
		}
		ev["via"] = map[bool]string{true: "mergestate", false: "mergedb"}[viaState]
		ev["res"] = Guard(func() string {
			if viaState {
				if err := util.MergeState(context.Background(), donor, partial); err != nil {
					return "err"
				}
				return "ok"
			}
			if err := rt.MergeDB(donor, root, nil); err != nil {
				return "err"
			}
			return "ok"
		})
		ev["rootsame"] = bytes.Equal(rt.GetRoot(), root)
		its, ires := IterItems(rt)
		ev["items"] = ItemsJSON(its)
		ev["ires"] = ires
		ev["hasmissing"] = Guard(func() string {
			b, err := rt.HasMissingNodes(context.Background())
			if err != nil {
				return "err"
			}
			if b {
				return "true"
			}
			return "false"
		})
		// a fresh trie on the repaired store alone
		ft := util.NewMerklePatriciaTrie(partial, util.Sequence(rv), root, NewTxnCache())
		its2, ires2 := IterItems(ft)
		ev["items2"] = ItemsJSON(its2)
		ev["ires2"] = ires2
		donorOK := true
		n := 0
		_ = donor.Iterate(context.Background(), func(ctx context.Context, key util.Key, node util.Node) error {
			n++
			if !bytes.Equal(snap[string(key)], node.Encode()) {
				donorOK = false
			}
			return nil
		})
		if n != len(snap) {
			donorOK = false
		}
		ev["donorOK"] = donorOK
		sw := SweepDB(partial, rv)
		ev["keysOK"] = sw.KeysOK
		// the repaired trie persists what it merged in (nodes that keep the origin they were created with): every node
		// must arrive in the target store under the hash of its own content (C14)
		savedOK := true
		Guard(func() string {
			target := util.NewMemoryNodeDB()
			if err := rt.SaveChanges(context.Background(), target, false); err != nil {
				savedOK = false
				return "err"
			}
			ts := SweepDB(target, rv)
			savedOK = ts.KeysOK && ts.RtOK
			return "ok"
		})
		ev["savedOK"] = savedOK
		w.Emit(ev)
		st.Events++
	}
	st.Distinct[ItemsKey(items)+"|"+string(bytes.Join(absentPos, []byte(",")))] = true
}

// GenSyncPlanBig draws a large-scope plan: several hundred keys over the full nibble alphabet (wide branches), most of the
// nodes below the root absent: the donor store holds several hundred nodes (more than any batch size of the stores).
func GenSyncPlanBig(r *rand.Rand, via string, scatter bool) SyncPlan {
	var plan SyncPlan
	plan.Via = via
	m := map[string]string{}
	n := 300 + r.Intn(200)
	if scatter {
		// several hundred scattered LEAVES absent below present branches: each of them is a missing key of its own (the
		// list of missing keys is longer than any batch size)
		n = 600 + r.Intn(100)
	}
	for len(m) < n {
		k := make([]byte, 6)
		for i := range k {
			k[i] = "0123456789abcdef"[r.Intn(16)]
		}
		m[string(k)] = fmt.Sprintf("v%d", len(m))
	}
	keys := make([]string, 0, len(m))
	for k := range m {
		keys = append(keys, k)
	}
	sort.Strings(keys)
	seen := map[string]bool{}
	for _, k := range keys {
		b, _ := json.Marshal([]any{bridge.Chars([]byte(k)), m[k]})
		plan.Init = append(plan.Init, b)
		for l := 1; l <= len(k); l++ {
			if scatter && l != 3 {
				continue // third level only: with this many keys the first two levels are branches
			}
			if p := k[:l]; !seen[p] && r.Intn(100) < 70 {
				seen[p] = true
				plan.Absent = append(plan.Absent, bridge.Chars([]byte(p)))
			}
		}
	}
	plan.BuildVers = []int64{1}
	if r.Intn(2) == 0 {
		plan.RepairVer = 9
	}
	return plan
}

// GenSyncPlan draws a random content and removal set.
func GenSyncPlan(r *rand.Rand) SyncPlan {
	var plan SyncPlan
	ops := GenMPTHistory(r, 30)
	m := map[string]string{}
	for _, op := range ops {
		p := string(joinChars(op.P))
		switch op.Op {
		case "ins":
			m[p] = op.V
		case "del":
			delete(m, p)
		}
	}
	if len(m) == 0 {
		m["0011"] = "a"
		m["0000"] = "b"
	}
	var pairs []json.RawMessage
	keys := make([]string, 0, len(m))
	for k := range m {
		keys = append(keys, k)
	}
	sort.Strings(keys)
	for _, k := range keys {
		b, _ := json.Marshal([]any{bridge.Chars([]byte(k)), m[k]})
		pairs = append(pairs, b)
	}
	plan.Init = pairs
	switch r.Intn(3) {
	case 0:
		plan.BuildVers = []int64{1}
	case 1:
		plan.BuildVers = []int64{1, 2}
	default:
		plan.BuildVers = []int64{3, 1, 2}
	}
	if r.Intn(2) == 0 {
		plan.RepairVer = 9
	}
	plan.Extra = r.Intn(3) == 0
	// removal positions: prefixes of stored paths (positions that are no node are ignored by the executor)
	mode := r.Intn(3)
	for _, k := range keys {
		for l := 1; l <= len(k); l++ {
			x := r.Intn(100)
			if (mode == 0 && x < 8) || (mode == 1 && x < 30) || (mode == 2 && x < 3) {
				plan.Absent = append(plan.Absent, bridge.Chars([]byte(k[:l])))
			}
		}
	}
	return plan
}
