SPECIFICATION Spec
CONSTANTS
  Keys = {0, 1, 2}
  Vals = {"a"}
  MaxVer = 3
  MaxOps = 2
  OriginInId = TRUE
  PruneSlack = 0
  GenDepth = 0
INVARIANTS Safe DeadNotLive Complete
VIEW View
CHECK_DEADLOCK FALSE
