--------------------------- MODULE WMPTProofTrace ---------------------------
(***************************************************************************)
(* Judges the real VerifyBlockProof on honest and tampered proofs (C10).   *)
(* One event per submitted proof: the trie content (entries sorted by key),*)
(* the block number, what was done to the honest proof, and the verifier's *)
(* outcome.  Only the property-level rule is applied:                      *)
(*    honest proof      => verifies to the trusted root with the owner's   *)
(*                         value                                           *)
(*    any other proof   => NOT (trusted root /\ value # owner's value)     *)
(* (rejecting, or verifying to a different root, is always fine).          *)
(* Deviation flag ReweightSiblings: the plan moved claimed weight between  *)
(* sibling slots of a branch record keeping their sum (known finding).     *)
(* Deviation flag TypeConfusion: the plan passed the hash preimage of a    *)
(* branch / short node off as a value record (known finding).              *)
(***************************************************************************)
EXTENDS Naturals, Sequences, FiniteSets, TLC, Json, IOUtils

Trace == ndJsonDeserialize(IOEnv.TRACE)
VARIABLES l, bad, nbad, ntr
tvars == <<l, bad, nbad, ntr>>
MaxBad == 40
\* deviations are kept per class (operation, failed checks, deviation flags): a flood of one class never hides another
KeepBad(bd, op, fl, dv) == Cardinality({b \in bd : b[3] = op /\ b[4] = fl /\ b[5] = dv}) < 6 /\ Cardinality(bd) < 40 * MaxBad
DevOf(e) == (IF e.reweighted THEN {"ReweightSiblings"} ELSE {}) \cup (IF e.imitated THEN {"TypeConfusion"} ELSE {})
Flag(cond, name) == IF cond THEN {} ELSE {name}

RECURSIVE OwnerVal(_, _, _)
\* entries: sequence of <<key, value, weight>> in key order
OwnerVal(entries, i, b) ==
  IF i > Len(entries) THEN "#none"
  ELSE IF b <= entries[i][3] THEN entries[i][2] ELSE OwnerVal(entries, i + 1, b - entries[i][3])

EventFlags(e) ==
  LET truth == OwnerVal(e.entries, 1, e.block)
      trusted == e.res = "ok" /\ e.rootmatch
  IN   Flag(e.res # "panic", "panic")
  \cup Flag(e.nedits > 0 \/ (trusted /\ e.value = truth), "honest")
  \cup Flag(~trusted \/ e.value = truth, "forged")

TraceInit == l = 1 /\ bad = {} /\ nbad = 0 /\ ntr = 0
TraceNext ==
  /\ l <= Len(Trace)
  /\ LET e == Trace[l]
         f == EventFlags(e)
     IN  /\ l' = l + 1 /\ ntr' = ntr + 1
         /\ nbad' = IF f = {} THEN nbad ELSE nbad + 1
         /\ bad' = IF f = {} \/ ~KeepBad(bad, e.op, f, DevOf(e)) THEN bad
                   ELSE bad \cup {<<e.tid, l, e.op, f, DevOf(e)>>}
TraceSpec == TraceInit /\ [][TraceNext]_tvars
Report == l <= Len(Trace) \/ PrintT(<<"VERIF_RESULT", l - 1, ntr, nbad, bad>>)
=============================================================================
