SPECIFICATION PSpec
CONSTANTS
  Tries <- MCTries
  MaxEdits = 2
  AllowReweight = FALSE
  GenMode = FALSE
INVARIANTS Complete Sound
CHECK_DEADLOCK FALSE
