SPECIFICATION Spec
CONSTANTS
  Keys <- AKeys5
  Vals <- AVals
  Wts <- AWts
  Variant = "orig-reweigh"
INVARIANTS Refines TotalOK ResultOK
CHECK_DEADLOCK FALSE
