SPECIFICATION ASpec
CONSTANTS
  Paths <- APaths
  Values <- AValues
  Variant = "orig-insert-ext1"
INVARIANTS Refines ResultOK
CHECK_DEADLOCK FALSE
