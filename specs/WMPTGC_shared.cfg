SPECIFICATION Spec
CONSTANTS
  Keys = {1, 2}
  Vals = {"a", "b", "c"}
  AllowShared = TRUE
  MaxSteps = 9
INVARIANT Durable
CHECK_DEADLOCK FALSE
