package main

import (
	"bufio"
	"bytes"
	"encoding/json"
	"math/rand"
	"os"

	"verifharness/exec"
	"verifharness/tr"
)

func init() { components["rounds"] = runRounds }

func runRounds(args []string) (map[string]any, error) {
	c := newCommon("rounds")
	nblock := c.fs.Int("nblock", 0, "number of single-block (memory base) histories")
	c.fs.Parse(args)
	w, err := tr.New(*c.out, *c.shards)
	if err != nil {
		return nil, err
	}
	in := tr.NewInterner()
	st := &exec.RStats{Distinct: map[string]bool{}}
	tid := 0
	nTLC := 0
	if *c.hist != "" {
		f, err := os.Open(*c.hist)
		if err != nil {
			return nil, err
		}
		sc := bufio.NewScanner(f)
		sc.Buffer(make([]byte, 1<<20), 1<<26)
		for sc.Scan() {
			line := bytes.TrimSpace(sc.Bytes())
			if len(line) == 0 {
				continue
			}
			var h exec.RHist
			if bytes.Contains(line, []byte(`"aops"`)) {
				// behaviour of MPTPersist.tla: abstract actions, translated to executor operations
				var ab struct {
					AOps []exec.AOp `json:"aops"`
				}
				if err := json.Unmarshal(line, &ab); err != nil {
					return nil, err
				}
				h = exec.TranslatePersist(ab.AOps)
			} else if err := json.Unmarshal(line, &h); err != nil {
				return nil, err
			}
			tid++
			nTLC++
			if !bytes.Contains(line, []byte(`"quiet"`)) {
				h.Quiet = nTLC%4 != 0 // TLC-generated scenarios: mostly observed through the node stores only
				h.SharedCache = nTLC%5 == 0
			}
			exec.RunRounds(w, in, st, tid, h)
		}
		f.Close()
	}
	r := rand.New(rand.NewSource(*c.seed))
	if *c.n > 0 {
		// the size limit from below: one short history around a value of exactly the largest accepted size
		tid++
		exec.RunRounds(w, in, st, tid, exec.GenRoundsMaxVal(r))
	}
	for i := 0; i < *c.n; i++ {
		tid++
		exec.RunRounds(w, in, st, tid, exec.GenRounds(r, true))
	}
	// large-scope rounds (change sets of several hundred nodes): 1 per 300 random histories, at least 2
	nbulk := 2 + *c.n/300
	for i := 0; i < nbulk; i++ {
		tid++
		exec.RunRounds(w, in, st, tid, exec.GenRoundsBulk(r, i == 0))
	}
	for i := 0; i < *nblock; i++ {
		tid++
		exec.RunRounds(w, in, st, tid, exec.GenRounds(r, false))
	}
	if err := w.Close(); err != nil {
		return nil, err
	}
	return map[string]any{"traces": st.Traces, "events": st.Events, "tlc_histories": nTLC, "go_histories": *c.n + *nblock, "bulk_histories": nbulk,
		"saves": st.Saves, "crashes": st.Crashes, "prunes": st.Prunes, "merges": st.Merges, "rejected_merges": st.Rejected,
		"reopens": st.Reopens, "panics": st.Panics, "distinct_signatures": len(st.Distinct), "distinct_nodes": in.Len(), "samples": w.Samples}, nil
}
