SPECIFICATION ISpec
CONSTANTS
  W = 8
  Idiom = "divide_back_guarded"
INVARIANTS MulExact AddExact SubExact LimbSanity
CHECK_DEADLOCK FALSE
