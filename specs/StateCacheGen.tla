----------------------------- MODULE StateCacheGen -----------------------------
(* Behaviour generation from StateCache.tla: the same actions with a history  *)
(* variable; every behaviour of Depth actions is printed as JSON.             *)
EXTENDS StateCache_MC

CONSTANT Depth
VARIABLE hist

Rec(op, b, t, h, p, k, v) == [op |-> op, b |-> b, t |-> t, h |-> h, p |-> p, k |-> k, v |-> v]

SetToSeq(X) == CHOOSE s \in [1..Cardinality(X) -> X] : \A i, j \in 1..Cardinality(X) : i # j => s[i] # s[j]

Prefix ==
  LET bs == SetToSeq(BCs)
      ts == SetToSeq(TXs)
  IN  [i \in 1..Len(bs) |-> Rec("newblock", bs[i], "", BCHashFn[bs[i]], PrevFn[BCHashFn[bs[i]]], "", "")]
      \o [i \in 1..Len(ts) |-> Rec("newtxn", ts[i], "", "", "", "", "")]

\* (newtxn records carry the block object in field b and the txn in t)
PrefixFixed ==
  LET bs == SetToSeq(BCs)
      ts == SetToSeq(TXs)
  IN  [i \in 1..Len(bs) |-> Rec("newblock", bs[i], "", BCHashFn[bs[i]], PrevFn[BCHashFn[bs[i]]], "", "")]
      \o [i \in 1..Len(ts) |-> Rec("newtxn", TXBlockFn[ts[i]], ts[i], "", "", "", "")]

GInit == Init /\ hist = <<>>

Log(r) == /\ Len(hist) < Depth
          /\ hist' = Append(hist, r)
          /\ (IF Len(hist') < Depth THEN TRUE ELSE PrintT(<<"VERIF_HIST", ToJson([small |-> TRUE, ops |-> PrefixFixed \o hist'])>>))

GNext ==
  \/ \E t \in TXs, k \in Keys :
        \/ \E v \in Vals : ATxnSet(t, k, v) /\ Log(Rec("tset", "", t, "", "", k, v))
        \/ ATxnRemove(t, k) /\ Log(Rec("tremove", "", t, "", "", k, ""))
        \/ ATxnGet(t, k) /\ Log(Rec("tget", "", t, "", "", k, ""))
  \/ \E t \in TXs : ATxnCommit(t) /\ Log(Rec("tcommit", "", t, "", "", "", ""))
  \/ \E b \in BCs, k \in Keys :
        \/ \E v \in Vals : ABlockSet(b, k, v) /\ Log(Rec("bset", b, "", "", "", k, v))
        \/ ABlockGet(b, k) /\ Log(Rec("bget", b, "", "", "", k, ""))
  \/ \E b \in BCs : ABlockCommit(b) /\ Log(Rec("bcommit", b, "", "", "", "", ""))
  \/ \E h \in Hashes, k \in Keys : AStateGet(h, k) /\ Log(Rec("sget", "", "", h, "", k, ""))

GSpec == GInit /\ [][GNext]_<<svars, hist>>
=============================================================================
