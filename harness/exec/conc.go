package exec

import (
	"context"
	"fmt"
	"math/rand"
	"runtime"
	"sort"
	"strings"
	"sync"
	"sync/atomic"
	"time"

	"verifharness/bridge"
	"verifharness/tr"

	"github.com/0chain/common/core/util"
)

// ConcStats collects coverage of concurrent-trie runs.
type ConcStats struct {
	Traces, Events, Panics, Ops int
	Distinct                    map[string]bool
}

type cev struct {
	stamp int64
	ev    map[string]any
}

// RunConc runs per-goroutine scripts on one trie concurrently and emits the
// call/return history ordered by a global atomic counter.
func RunConc(w *tr.Writer, st *ConcStats, tid int, r *rand.Rand, withMissing bool, saveStress bool) {
	w.NextTrace()
	st.Traces++
	var db util.NodeDB = util.NewMemoryNodeDB()
	// sharedSave: the usual arrangement of a block's trie - a memory level over the state store - whose changes are saved
	// INTO that state store while readers of the same trie read through to it
	var stateDB *util.MemoryNodeDB
	cfg := r.Intn(3)
	if saveStress {
		cfg = 2 * r.Intn(2) // never the shared state store (its saves are not judged as snapshots)
	}
	switch cfg {
	case 0:
		db = util.NewLevelNodeDB(util.NewMemoryNodeDB(), util.NewMemoryNodeDB(), false)
	case 1:
		stateDB = util.NewMemoryNodeDB()
		db = util.NewLevelNodeDB(util.NewMemoryNodeDB(), stateDB, false)
	}
	t := util.NewMerklePatriciaTrie(db, 1, nil, NewTxnCache())
	// initial content
	paths := []string{"", "00", "0000", "0011", "01", "0100", "10", "1000", "1011", "a0", "a0b1"}
	vals := []string{"a", "b", "c"}
	var initItems []bridge.Item
	m := map[string]string{}
	if saveStress {
		// one writer updating deep keys of a ladder of branches (every update replaces half a dozen nodes, one collector call
		// each) against one saver: a save that is not atomic with respect to an update lands between two of those calls
		paths = []string{"000000000011", "000000000022", "0000000033", "00000044"}
		for k := 1; k <= 5; k++ {
			p := strings.Repeat("00", k) + "11"
			if _, err := t.Insert(util.Path(p), Val([]byte("a"))); err != nil {
				panic(err)
			}
			m[p] = "a"
		}
	}
	for i := 0; i < 2+r.Intn(5) && !saveStress; i++ {
		p, v := paths[r.Intn(len(paths))], vals[r.Intn(len(vals))]
		if _, err := t.Insert(util.Path(p), Val([]byte(v))); err != nil {
			panic(err)
		}
		m[p] = v
	}
	for p, v := range m {
		initItems = append(initItems, bridge.Item{Path: []byte(p), Value: []byte(v)})
	}
	sort.Slice(initItems, func(i, j int) bool { return string(initItems[i].Path) < string(initItems[j].Path) })
	if stateDB != nil {
		// the initial content lives in the state store; the block's trie starts from its root with an empty level
		if err := t.SaveChanges(context.Background(), stateDB, false); err != nil {
			panic(err)
		}
		db = util.NewLevelNodeDB(util.NewMemoryNodeDB(), stateDB, false)
		t = util.NewMerklePatriciaTrie(db, 1, t.GetRoot(), NewTxnCache())
	}
	if r.Intn(2) == 0 {
		// the trie's node cache was committed to its block cache before the concurrent phase (as after a transaction):
		// lookups then find the nodes one level down in the cache hierarchy
		t.Cache().Commit()
	}
	judged := true
	if withMissing {
		// remove one non-root node so that readers run into a missing node (race-only run)
		ps := positions(t.GetRoot(), RawGet(db))
		if len(ps) > 1 {
			_ = db.DeleteNode(ps[1+r.Intn(len(ps)-1)].key)
			t = util.NewMerklePatriciaTrie(db, 1, t.GetRoot(), NewTxnCache())
			judged = false
		}
	}
	ng := 2 + r.Intn(3)
	disjoint := r.Intn(3) == 0
	if saveStress {
		ng, disjoint = 3, false // writer, saver, reader
	}
	var counter int64
	var mu sync.Mutex
	var evs []cev
	rec := func(ev map[string]any) {
		s := atomic.AddInt64(&counter, 1)
		mu.Lock()
		evs = append(evs, cev{s, ev})
		mu.Unlock()
	}
	seeds := make([]int64, ng)
	for i := range seeds {
		seeds[i] = r.Int63()
	}
	// every node present before the goroutines start: a change set read later holds the nodes created since the
	// collector started; together with this base it must describe one complete trie
	base := map[string][]byte{}
	_ = db.Iterate(context.Background(), func(ctx context.Context, key util.Key, node util.Node) error {
		base[string(key)] = node.Encode()
		return nil
	})
	// snapshot judges a change set (new nodes by key) read by GetChanges / written by SaveChanges as an atomic
	// observation: the trie it describes must be complete, and its content is returned
	// for the linearizability search like the result of an iteration
	snapshot := func(ret map[string]any, root []byte, snap map[string][]byte) {
		used := map[string]bool{}
		get := func(k []byte) []byte {
			if b, ok := snap[string(k)]; ok {
				used[string(k)] = true
				return b
			}
			return base[string(k)]
		}
		wr := bridge.WalkMPT(root, get, -1)
		ret["snap"] = true
		// (nodes of the change set that the walk did not use are tolerated: keeping garbage is not an atomicity matter)
		ret["snapok"] = wr.Missing == 0 && wr.KeysOK
		ret["items"] = ItemsJSON(wr.Term.Items())
	}
	var wg sync.WaitGroup
	var panics int64
	var updStarted, updFinished int64 // updates (insert / delete) begun and completed so far, all goroutines
	var writerDone int64              // save-stress: the writer has finished its script
	for g := 0; g < ng; g++ {
		wg.Add(1)
		g := g
		rr := rand.New(rand.NewSource(seeds[g]))
		nops := 2 + rr.Intn(4)
		if saveStress {
			nops = 9
			if g == 0 {
				nops = 24
			}
			if g == 2 {
				nops = 16
			}
		}
		go func() {
			defer wg.Done()
			if saveStress && g == 0 {
				defer atomic.StoreInt64(&writerDone, 1)
			}
			var lastRoot []byte // save-stress: root and completed-update count read after this goroutine's previous save
			var lastF0 int64
			for i := 0; i < nops; i++ {
				p := paths[rr.Intn(len(paths))]
				if disjoint {
					p = fmt.Sprintf("%x%x", g+1, g+1) + p
					if len(p)%2 == 1 {
						p = p[:len(p)-1]
					}
				}
				op := []string{"ins", "ins", "del", "get", "get", "iter", "changes", "save"}[rr.Intn(8)]
				if saveStress {
					op = []string{"ins", "ins", "del"}[rr.Intn(3)]
					if g == 1 {
						op = "save"
					}
					if g == 2 {
						// lookups of the deep ladder keys while the writer replaces the nodes above them
						op = "get"
						p = strings.Repeat("00", 3+rr.Intn(3)) + "11"
					}
				}
				v := vals[rr.Intn(len(vals))]
				switch rr.Intn(4) + map[bool]int{true: 4, false: 0}[saveStress && g == 0] { // (the stress writer never pauses)
				case 0:
					runtime.Gosched()
				case 1:
					time.Sleep(time.Duration(rr.Intn(50)) * time.Microsecond)
				}
				call := map[string]any{"tid": tid, "op": "call", "g": g, "f": op, "p": bridge.Chars([]byte(p)), "v": v}
				rec(call)
				ret := map[string]any{"tid": tid, "op": "ret", "g": g, "f": op, "val": "", "items": []any{}, "snap": false, "snapok": true}
				res := Guard(func() string {
					switch op {
					case "ins":
						atomic.AddInt64(&updStarted, 1)
						_, err := t.Insert(util.Path(p), Val([]byte(v)))
						atomic.AddInt64(&updFinished, 1)
						return ResClass(err)
					case "del":
						atomic.AddInt64(&updStarted, 1)
						_, err := t.Delete(util.Path(p))
						atomic.AddInt64(&updFinished, 1)
						return ResClass(err)
					case "get":
						val, err := t.GetNodeValueRaw(util.Path(p))
						ret["val"] = bridge.Tok(val)
						return ResClass(err)
					case "iter":
						var items []bridge.Item
						err := t.Iterate(context.Background(), func(ctx context.Context, path util.Path, key util.Key, node util.Node) error {
							if vn, ok := node.(*util.ValueNode); ok {
								items = append(items, bridge.Item{Path: append([]byte(nil), path...), Value: append([]byte(nil), vn.GetValueBytes()...)})
							}
							return nil
						}, util.NodeTypeValueNode)
						ret["items"] = ItemsJSON(items)
						return ResClass(err)
					case "changes":
						root, changes, _, _ := t.GetChanges()
						_ = t.GetChangeCount()
						_ = t.GetDeletes() // the other half of the change set (race detection only)
						_ = t.GetRoot()
						if rr.Intn(2) == 0 {
							time.Sleep(time.Duration(rr.Intn(80)) * time.Microsecond)
						}
						snap := map[string][]byte{}
						for _, c := range changes {
							snap[string(c.New.GetHashBytes())] = c.New.Encode()
						}
						snapshot(ret, root, snap)
						return "ok"
					default:
						if !saveStress && rr.Intn(4) == 0 {
							// a save whose deadline expires while the store is still writing: the call returns, the abandoned
							// write goes on by design; nothing is judged here but the absence of a race and of a panic
							ctx, cancel := context.WithTimeout(context.Background(), 200*time.Microsecond)
							_ = t.SaveChanges(ctx, &slowDB{NodeDB: util.NewMemoryNodeDB(), d: 3 * time.Millisecond}, false)
							cancel()
							return "ok"
						}
						if stateDB != nil && rr.Intn(2) == 0 {
							// save into the state store the trie reads through (not judged as a snapshot: the store is shared)
							if err := t.SaveChanges(context.Background(), stateDB, false); err != nil {
								return "err"
							}
							return "ok"
						}
						fresh := util.NewMemoryNodeDB()
						f0 := atomic.LoadInt64(&updFinished)
						var rootBefore []byte
						r1known := true
						if saveStress {
							// the saver must not synchronise with the writer just before its save (reading the root waits for an
							// update in flight): it uses the root it read after its previous save, which is still the root at the
							// start of this call if no update has completed since
							rootBefore, r1known = lastRoot, lastRoot != nil && f0 == lastF0
							if !r1known {
								rootBefore = nil
							}
						} else {
							rootBefore = append([]byte(nil), t.GetRoot()...)
						}
						if err := t.SaveChanges(context.Background(), fresh, false); err != nil {
							return "err"
						}
						nf := atomic.LoadInt64(&updFinished)
						rootAfter := append([]byte(nil), t.GetRoot()...)
						overlapping := atomic.LoadInt64(&updStarted) - f0 // updates that can have changed the trie between the two root reads
						lastF0, lastRoot = nf, append([]byte{}, rootAfter...)
						// the saved change set names no root: it is the one saved node no other saved node refers to
						snap := map[string][]byte{}
						refd := map[string]bool{}
						_ = fresh.Iterate(context.Background(), func(ctx context.Context, key util.Key, node util.Node) error {
							enc := node.Encode()
							snap[string(key)] = enc
							if n, err := bridge.ParseMPTNode(enc); err == nil {
								if n.Child != nil {
									refd[string(n.Child)] = true
								}
								for _, k := range n.Kids {
									if k != nil {
										refd[string(k)] = true
									}
								}
							}
							return nil
						})
						var roots [][]byte
						for k := range snap {
							if !refd[k] {
								roots = append(roots, []byte(k))
							}
						}
						// The saved change set names no root.  The trie's root just before and just after the save are both states
						// inside the call's window; the save is a snapshot if the saved nodes, laid over the base nodes, hold a
						// complete trie below one of them (a change set may also hold nodes that an update created and a later one
						// abandoned: garbage, not an atomicity matter).  If neither is complete although at most one update
						// overlapped the save, the save is torn.  With more overlapping updates the state saved can be one in
						// between, whose root is unknown here: such a save is not judged as a snapshot.
						for _, cand := range [][]byte{rootAfter, rootBefore} {
							if len(cand) == 0 {
								continue
							}
							snapshot(ret, cand, snap)
							if ret["snapok"] == true {
								return "ok"
							}
						}
						ret["snap"], ret["snapok"], ret["items"] = false, true, []any{}
						switch {
						case r1known && overlapping <= 1 && len(rootBefore) > 0 && len(rootAfter) > 0: // (an empty trie is trivially complete)
							ret["snap"], ret["snapok"] = true, false
						}
						_ = roots // (a single saved node nobody refers to is NOT taken for the root: it can be an abandoned node while the
						// real root is a node of the base, after an update that restored an earlier state)
						return "ok"
					}
				})
				if res == "panic" {
					atomic.AddInt64(&panics, 1)
				}
				ret["res"] = res
				rec(ret)
			}
		}()
	}
	// save-stress runs: two more readers hammer the ladder keys that no update ever touches; their value is the same in every
	// state, so any other answer is wrong whatever the interleaving (not part of the recorded history)
	var constBad int64
	if saveStress {
		for x := 0; x < 2; x++ {
			wg.Add(1)
			xr := rand.New(rand.NewSource(seeds[0] + int64(x) + 1))
			go func() {
				defer wg.Done()
				for i := 0; i < 20000 && atomic.LoadInt64(&writerDone) == 0; i++ {
					p := strings.Repeat("00", 1+xr.Intn(4)) + "11"
					if Guard(func() string {
						v, err := t.GetNodeValueRaw(util.Path(p))
						if err != nil || string(v) != "a" {
							return "bad"
						}
						return "ok"
					}) != "ok" {
						atomic.AddInt64(&constBad, 1)
					}
				}
			}()
		}
	}
	wg.Wait()
	sort.Slice(evs, func(i, j int) bool { return evs[i].stamp < evs[j].stamp })
	w.Emit(map[string]any{"tid": tid, "op": "reset", "init": ItemsJSON(initItems), "judged": judged, "ng": ng})
	for _, e := range evs {
		w.Emit(e.ev)
	}
	items, ires := IterItems(t)
	wr := bridge.WalkMPT(t.GetRoot(), RawGet(db), -1)
	w.Emit(map[string]any{"tid": tid, "op": "final", "constbad": constBad, "items": ItemsJSON(items), "ires": ires, "keysOK": wr.KeysOK && (wr.Missing == 0 || !judged),
		"shape": wr.Term.JSON()})
	st.Events += len(evs) + 2
	st.Ops += len(evs) / 2
	st.Panics += int(panics)
	st.Distinct[fmt.Sprintf("%d/%d/%v", ng, len(evs), disjoint)] = true
}

// slowDB is a node store whose batch write takes a while (a save can then outlive its deadline).
type slowDB struct {
	util.NodeDB
	d time.Duration
}

func (s *slowDB) MultiPutNode(keys []util.Key, nodes []util.Node) error {
	time.Sleep(s.d)
	return s.NodeDB.MultiPutNode(keys, nodes)
}

// RunConstStress: one writer re-writes a single deep key several thousand times (ending on its initial value) while six readers
// look up neighbouring keys that no update touches.  Those values are the same in every state of the run, so any other
// answer - in particular "node not found" because a lookup still needed a node that an update has just superseded - is
// wrong whatever the interleaving.  Emitted as a history without recorded calls: reset, final.
func RunConstStress(w *tr.Writer, st *ConcStats, tid int, r *rand.Rand, updates int) {
	w.NextTrace()
	st.Traces++
	var db util.NodeDB = util.NewMemoryNodeDB()
	if r.Intn(2) == 0 {
		db = util.NewLevelNodeDB(util.NewMemoryNodeDB(), util.NewMemoryNodeDB(), false)
	}
	t := util.NewMerklePatriciaTrie(db, 1, nil, NewTxnCache())
	var initItems []bridge.Item
	put := func(p, v string) {
		if _, err := t.Insert(util.Path(p), Val([]byte(v))); err != nil {
			panic(err)
		}
	}
	for k := 1; k <= 5; k++ {
		p := strings.Repeat("00", k) + "11"
		put(p, "a")
		initItems = append(initItems, bridge.Item{Path: []byte(p), Value: []byte("a")})
	}
	const hot = "000000000022"
	put(hot, "n0")
	initItems = append(initItems, bridge.Item{Path: []byte(hot), Value: []byte("n0")})
	sort.Slice(initItems, func(i, j int) bool { return string(initItems[i].Path) < string(initItems[j].Path) })
	var done, bad, lookups, panics int64
	var wg sync.WaitGroup
	for x := 0; x < 6; x++ {
		wg.Add(1)
		p := strings.Repeat("00", 1+x%5) + "11"
		go func() {
			defer wg.Done()
			for atomic.LoadInt64(&done) == 0 {
				res := Guard(func() string {
					v, err := t.GetNodeValueRaw(util.Path(p))
					if err != nil || string(v) != "a" {
						return "bad"
					}
					return "ok"
				})
				atomic.AddInt64(&lookups, 1)
				if res == "panic" {
					atomic.AddInt64(&panics, 1)
				}
				if res != "ok" {
					atomic.AddInt64(&bad, 1)
				}
			}
		}()
	}
	wres := Guard(func() string {
		for i := 1; i <= updates; i++ {
			v := []string{"n1", "n2"}[i%2]
			if i == updates {
				v = "n0"
			}
			if _, err := t.Insert(util.Path(hot), Val([]byte(v))); err != nil {
				return "err"
			}
		}
		return "ok"
	})
	atomic.StoreInt64(&done, 1)
	wg.Wait()
	if wres != "ok" {
		bad++
	}
	w.Emit(map[string]any{"tid": tid, "op": "reset", "init": ItemsJSON(initItems), "judged": true, "ng": 7})
	items, ires := IterItems(t)
	wr := bridge.WalkMPT(t.GetRoot(), RawGet(db), -1)
	w.Emit(map[string]any{"tid": tid, "op": "final", "constbad": bad, "lookups": lookups, "updates": updates, "items": ItemsJSON(items), "ires": ires,
		"keysOK": wr.KeysOK && wr.Missing == 0, "shape": wr.Term.JSON()})
	st.Events += 2
	st.Ops += updates + int(lookups)
	st.Panics += int(panics)
	st.Distinct["conststress"] = true
}
