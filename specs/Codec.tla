-------------------------------- MODULE Codec --------------------------------
(***************************************************************************)
(* Byte formats of stored / transmitted nodes (C14, C15).                  *)
(*                                                                         *)
(* Part 1 - the state-trie node format at symbol level.  Symbols:          *)
(*   "T2" "T4" "T8" type byte (leaf / full / extension),  "H" one of the   *)
(*   16 header bytes (version, origin),  ":" the separator,  "x" a hex     *)
(*   character,  "K" a 64-character hex child key,  "b" any other byte.    *)
(* Enc is the published layout (value last); Dec is the total decoder      *)
(* (node or Err).  RoundTrip: Dec(Enc(n)) = n for every node of the      *)
(* scope, including values that contain separators and raw extension keys  *)
(* that contain separator bytes - the format is unambiguous because only   *)
(* the LAST field may contain ":".                                         *)
(*                                                                         *)
(* Part 2 - the space of near-valid inputs for the decoders: a seed        *)
(* encoding and up to MaxMuts mutations out of the families named by C15   *)
(* (truncation, separator removal/duplication, type-byte change, length-   *)
(* field inflation, field splicing, bit flips, and CBOR-level changes of   *)
(* byte-string lengths, array lengths, null elements, integers, map keys,  *)
(* nested records).  TLC enumerates the whole plan space; the executor     *)
(* concretises every plan on every seed of the real corpus.                *)
(***************************************************************************)
EXTENDS Naturals, Sequences, FiniteSets, TLC, Json

CONSTANTS MaxMuts, GenMode

---------------------------------------------------------------------------
Hdr == [i \in 1..16 |-> "H"]
Err == [k |-> "ERR"]
ValAlphabet == {":", "x", "b"}

SeqsUpTo(S, n) == UNION {[1..m -> S] : m \in 0..n}

Leaves == {[k |-> "L", pre |-> p, path |-> q, val |-> v] :
             p \in SeqsUpTo({"x"}, 2), q \in SeqsUpTo({"x"}, 2), v \in SeqsUpTo(ValAlphabet, 3)}
Fulls  == {[k |-> "F", kids |-> c, val |-> v] : c \in [1..4 -> BOOLEAN], v \in SeqsUpTo(ValAlphabet, 3)}
Exts   == {[k |-> "E", path |-> q, key |-> y] : q \in SeqsUpTo({"x"}, 2), y \in [1..2 -> ValAlphabet]}
Nodes  == Leaves \cup Fulls \cup Exts

RECURSIVE EncKids(_, _)
EncKids(c, i) == IF i > 4 THEN <<>> ELSE (IF c[i] THEN <<"K", ":">> ELSE <<":">>) \o EncKids(c, i + 1)

Enc(n) ==
  CASE n.k = "L" -> <<"T2">> \o Hdr \o n.pre \o <<":">> \o n.path \o <<":">> \o n.val
    [] n.k = "F" -> <<"T4">> \o Hdr \o EncKids(n.kids, 1) \o n.val
    [] n.k = "E" -> <<"T8">> \o Hdr \o n.path \o <<":">> \o n.key

\* index of the first ":" in s at or after i, or 0
RECURSIVE FirstSep(_, _)
FirstSep(s, i) == IF i > Len(s) THEN 0 ELSE IF s[i] = ":" THEN i ELSE FirstSep(s, i + 1)
Sub(s, a, b) == IF a > b THEN <<>> ELSE SubSeq(s, a, b)
AllIn(s, S) == \A i \in 1..Len(s) : s[i] \in S

RECURSIVE DecKids(_, _, _)
\* parse 4 child fields from body starting at position i; returns [ok, kids, nxt]
DecKids(body, i, n) ==
  IF n > 4 THEN [ok |-> TRUE, kids |-> <<>>, nxt |-> i]
  ELSE LET j == FirstSep(body, i) IN
       IF j = 0 THEN [ok |-> FALSE, kids |-> <<>>, nxt |-> 0]
       ELSE LET f == Sub(body, i, j - 1)
                r == DecKids(body, j + 1, n + 1)
            IN  IF ~(f = <<>> \/ f = <<"K">>) \/ ~r.ok THEN [ok |-> FALSE, kids |-> <<>>, nxt |-> 0]
                ELSE [ok |-> TRUE, kids |-> <<f = <<"K">>>> \o r.kids, nxt |-> r.nxt]

Dec(s) ==
  IF Len(s) < 17 \/ ~AllIn(Sub(s, 2, 17), {"H"}) THEN Err
  ELSE LET body == Sub(s, 18, Len(s)) IN
       CASE s[1] = "T2" ->
              LET i == FirstSep(body, 1) IN
              IF i = 0 THEN Err
              ELSE LET j == FirstSep(body, i + 1) IN
                   IF j = 0 \/ ~AllIn(Sub(body, 1, i - 1), {"x"}) \/ ~AllIn(Sub(body, i + 1, j - 1), {"x"}) THEN Err
                   ELSE [k |-> "L", pre |-> Sub(body, 1, i - 1), path |-> Sub(body, i + 1, j - 1), val |-> Sub(body, j + 1, Len(body))]
         [] s[1] = "T4" ->
              LET r == DecKids(body, 1, 1) IN
              IF ~r.ok THEN Err
              ELSE [k |-> "F", kids |-> [i \in 1..4 |-> r.kids[i]], val |-> Sub(body, r.nxt, Len(body))]
         [] s[1] = "T8" ->
              LET i == FirstSep(body, 1) IN
              IF i = 0 \/ ~AllIn(Sub(body, 1, i - 1), {"x"}) \/ Len(body) - i # 2 THEN Err
              ELSE [k |-> "E", path |-> Sub(body, 1, i - 1), key |-> Sub(body, i + 1, Len(body))]
         [] OTHER -> Err

---------------------------------------------------------------------------
(* the mutation plan space *)
MutKinds == {"trunc", "dropsep", "dupsep", "settype", "inflate", "splice", "flip", "zero", "grow",
             "bslen", "arrlen", "null", "int", "mapkey", "inner"}
ArgsOf(m) ==
  CASE m = "trunc"   -> {<<a, b>> : a \in {0, 1, 4, 7, 8}, b \in {0, 1}}
    [] m = "dropsep" -> {<<a, 0>> : a \in 0..3}
    [] m = "dupsep"  -> {<<a, 0>> : a \in 0..2}
    [] m = "settype" -> {<<a, 0>> : a \in {0, 1, 2, 3, 4, 8, 16, 255}}
    [] m = "inflate" -> {<<a, b>> : a \in 0..3, b \in {23, 24, 26, 27, 31}}
    [] m = "splice"  -> {<<a, b>> : a \in 0..5, b \in {0, 4}}
    [] m = "flip"    -> {<<a, b>> : a \in {0, 1, 8, 15}, b \in {0, 7}}
    [] m = "zero"    -> {<<a, 4>> : a \in {0, 8}}
    [] m = "grow"    -> {<<a, b>> : a \in {0, 4, 8}, b \in {1, 40}}
    [] m = "bslen"   -> {<<a, b>> : a \in 0..4, b \in 0..12}
    [] m = "arrlen"  -> {<<a, b>> : a \in 0..2, b \in 0..9}
    [] m = "null"    -> {<<a, 0>> : a \in 0..6}
    [] m = "int"     -> {<<a, b>> : a \in 0..1, b \in 0..5}
    [] m = "mapkey"  -> {<<0, b>> : b \in 0..5}
    [] m = "inner"   -> {<<a, b>> : a \in 0..3, b \in {0, 1, 2, 3, 4, 5, 7, 11, 16, 21, 26}}
Muts == UNION {{[m |-> k, a |-> x[1], b |-> x[2]] : x \in ArgsOf(k)} : k \in MutKinds}

VARIABLES node, plan
cvars == <<node, plan>>

CInit == node \in Nodes /\ plan = [seed |-> 0, muts |-> <<>>]
\* the design check and the plan enumeration do not interact: the node variable carries the round-trip
\* scope, the plan variable the mutation space (explored from the first node only)
AddMut == /\ GenMode /\ node = CHOOSE n \in Nodes : TRUE
          /\ Len(plan.muts) < MaxMuts
          /\ \E s \in 0..3, mu \in Muts :
                /\ (plan.muts = <<>> \/ s = plan.seed)
                /\ plan' = [seed |-> s, muts |-> Append(plan.muts, mu)]
          /\ UNCHANGED node
CNext == AddMut
CSpec == CInit /\ [][CNext]_cvars

RoundTrip == Dec(Enc(node)) = node
\* a valid encoding cut short is never accepted as the same node
TruncationSeen == \A n \in 1..(Len(Enc(node)) - 1) : Dec(SubSeq(Enc(node), 1, n)) # node
EmitPlan == ~GenMode \/ plan.muts = <<>> \/ PrintT(<<"VERIF_HIST", ToJson(plan)>>)
=============================================================================
