SPECIFICATION SSpec
CONSTANTS
  Paths = {}
  Values = {}
  Contents <- SContents
  GenMode = FALSE
INVARIANTS FrontierOK LookupOK RepairedOK
CHECK_DEADLOCK FALSE
