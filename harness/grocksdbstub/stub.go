// Package grocksdb is a pure-Go, in-memory stand-in for the subset of
// github.com/linxGnu/grocksdb v1.8.0 used by 0chain/common core/util
// (mpt_pnodedb.go).  It exists because the cgo binding does not build against
// the librocksdb installed in this sandbox.  Semantics modelled: ordered
// key/value column families, atomic WriteBatch, every write element is
// reported to an observer (used as the crash-point stream by the harness).
package grocksdb

import (
	"bytes"
	"errors"
	"sort"
	"sync"
)

type CompressionType uint

const (
	NoCompression  CompressionType = 0
	LZ4Compression CompressionType = 4
)

// ---------------------------------------------------------------- options (no-ops)

type Options struct{}
type BlockBasedTableOptions struct{}
type Cache struct{}
type SliceTransform struct{}
type ReadOptions struct{}
type WriteOptions struct{}
type TransactionOptions struct{}
type FlushOptions struct{}

func NewDefaultOptions() *Options                               { return &Options{} }
func NewDefaultBlockBasedTableOptions() *BlockBasedTableOptions { return &BlockBasedTableOptions{} }
func NewLRUCache(capacity uint64) *Cache                        { return &Cache{} }
func NewFixedPrefixTransform(n int) *SliceTransform             { return &SliceTransform{} }
func NewDefaultReadOptions() *ReadOptions                       { return &ReadOptions{} }
func NewDefaultWriteOptions() *WriteOptions                     { return &WriteOptions{} }
func NewDefaultTransactionOptions() *TransactionOptions         { return &TransactionOptions{} }
func NewDefaultFlushOptions() *FlushOptions                     { return &FlushOptions{} }

func (o *Options) SetCreateIfMissing(bool)                           {}
func (o *Options) SetCompression(CompressionType)                    {}
func (o *Options) SetCreateIfMissingColumnFamilies(bool)             {}
func (o *Options) OptimizeUniversalStyleCompaction(uint64)           {}
func (o *Options) SetAllowMmapReads(bool)                            {}
func (o *Options) SetPrefixExtractor(*SliceTransform)                {}
func (o *Options) SetPlainTableFactory(uint32, int, float64, uint)   {}
func (o *Options) OptimizeForPointLookup(uint64)                     {}
func (o *Options) SetMaxBackgroundJobs(int)                          {}
func (o *Options) SetMaxWriteBufferNumber(int)                       {}
func (o *Options) SetWriteBufferSize(uint64)                         {}
func (o *Options) SetMinWriteBufferNumberToMerge(int)                {}
func (o *Options) IncreaseParallelism(int)                           {}
func (o *Options) SetDbLogDir(string)                                {}
func (o *Options) EnableStatistics()                                 {}
func (o *Options) SetDeleteObsoleteFilesPeriodMicros(uint64)         {}
func (o *Options) SetKeepLogFileNum(uint)                            {}
func (o *Options) SetBlockBasedTableFactory(*BlockBasedTableOptions) {}
func (o *BlockBasedTableOptions) SetBlockCache(*Cache)               {}
func (o *ReadOptions) Destroy()                                      {}
func (o *ReadOptions) SetFillCache(bool)                             {}
func (o *WriteOptions) SetSync(bool)                                 {}

// ---------------------------------------------------------------- storage

// Elem is one element of the write stream (the unit of crash atomicity).
type Elem struct {
	Kind string // "put", "putcf", "delete", "batch"
	Ops  []Op
}

// Op is a single mutation inside an Elem.
type Op struct {
	CF     int // 0 default, 1 dead_nodes
	Delete bool
	Key    []byte
	Value  []byte
}

// Store is the surviving ("on disk") state of one database directory.
type Store struct {
	mu  sync.Mutex
	CFs []map[string][]byte
	// Observer, if set, is called after each write element has been applied.
	Observer func(e Elem)
	// FailAfter >= 0: number of further write elements that succeed; after
	// that every write returns ErrInjected and is not applied.
	FailAfter int
	Writes    int
}

var ErrInjected = errors.New("grocksdbstub: injected write failure")

var (
	regMu    sync.Mutex
	registry = map[string]*Store{}
)

// GetStore returns (creating if needed) the store registered under dir.
func GetStore(dir string) *Store {
	regMu.Lock()
	defer regMu.Unlock()
	s, ok := registry[dir]
	if !ok {
		s = &Store{CFs: []map[string][]byte{{}, {}}, FailAfter: -1}
		registry[dir] = s
	}
	return s
}

// DropStore forgets a directory.
func DropStore(dir string) {
	regMu.Lock()
	defer regMu.Unlock()
	delete(registry, dir)
}

// Snapshot deep-copies the store contents.
func (s *Store) Snapshot() []map[string][]byte {
	s.mu.Lock()
	defer s.mu.Unlock()
	out := make([]map[string][]byte, len(s.CFs))
	for i, cf := range s.CFs {
		m := make(map[string][]byte, len(cf))
		for k, v := range cf {
			m[k] = append([]byte(nil), v...)
		}
		out[i] = m
	}
	return out
}

// Restore replaces the store contents with a deep copy of snap.
func (s *Store) Restore(snap []map[string][]byte) {
	s.mu.Lock()
	defer s.mu.Unlock()
	s.CFs = make([]map[string][]byte, len(snap))
	for i, cf := range snap {
		m := make(map[string][]byte, len(cf))
		for k, v := range cf {
			m[k] = append([]byte(nil), v...)
		}
		s.CFs[i] = m
	}
}

func (s *Store) apply(e Elem) error {
	s.mu.Lock()
	if s.FailAfter == 0 {
		s.mu.Unlock()
		return ErrInjected
	}
	if s.FailAfter > 0 {
		s.FailAfter--
	}
	for _, op := range e.Ops {
		if op.Delete {
			delete(s.CFs[op.CF], string(op.Key))
		} else {
			s.CFs[op.CF][string(op.Key)] = append([]byte(nil), op.Value...)
		}
	}
	s.Writes++
	obs := s.Observer
	s.mu.Unlock()
	if obs != nil {
		obs(e)
	}
	return nil
}

func (s *Store) get(cf int, key []byte) []byte {
	s.mu.Lock()
	defer s.mu.Unlock()
	v, ok := s.CFs[cf][string(key)]
	if !ok {
		return nil
	}
	return append([]byte(nil), v...)
}

type kv struct{ k, v []byte }

func (s *Store) sorted(cf int) []kv {
	s.mu.Lock()
	defer s.mu.Unlock()
	out := make([]kv, 0, len(s.CFs[cf]))
	for k, v := range s.CFs[cf] {
		out = append(out, kv{[]byte(k), append([]byte(nil), v...)})
	}
	sort.Slice(out, func(i, j int) bool { return bytes.Compare(out[i].k, out[j].k) < 0 })
	return out
}

// ---------------------------------------------------------------- DB API

type ColumnFamilyHandle struct{ idx int }

func (h *ColumnFamilyHandle) Destroy() {}

type DB struct{ s *Store }

func OpenDbColumnFamilies(opts *Options, name string, cfNames []string, cfOpts []*Options) (*DB, []*ColumnFamilyHandle, error) {
	s := GetStore(name)
	s.mu.Lock()
	for len(s.CFs) < len(cfNames) {
		s.CFs = append(s.CFs, map[string][]byte{})
	}
	s.mu.Unlock()
	hs := make([]*ColumnFamilyHandle, len(cfNames))
	for i := range cfNames {
		hs[i] = &ColumnFamilyHandle{idx: i}
	}
	return &DB{s: s}, hs, nil
}

type Slice struct{ data []byte }

func (s *Slice) Data() []byte { return s.data }
func (s *Slice) Free()        {}
func (s *Slice) Size() int    { return len(s.data) }
func (s *Slice) Exists() bool { return s.data != nil }

func (db *DB) GetPropertyCF(prop string, cf *ColumnFamilyHandle) string { return "0" }

func (db *DB) Get(ro *ReadOptions, key []byte) (*Slice, error) {
	return &Slice{data: db.s.get(0, key)}, nil
}

func (db *DB) Put(wo *WriteOptions, key, value []byte) error {
	return db.s.apply(Elem{Kind: "put", Ops: []Op{{CF: 0, Key: cp(key), Value: cp(value)}}})
}

func (db *DB) PutCF(wo *WriteOptions, cf *ColumnFamilyHandle, key, value []byte) error {
	return db.s.apply(Elem{Kind: "putcf", Ops: []Op{{CF: cf.idx, Key: cp(key), Value: cp(value)}}})
}

func (db *DB) Delete(wo *WriteOptions, key []byte) error {
	return db.s.apply(Elem{Kind: "delete", Ops: []Op{{CF: 0, Delete: true, Key: cp(key)}}})
}

func (db *DB) Write(wo *WriteOptions, wb *WriteBatch) error {
	return db.s.apply(Elem{Kind: "batch", Ops: wb.ops})
}

func (db *DB) Flush(fo *FlushOptions) error { return nil }
func (db *DB) Close()                       {}

func cp(b []byte) []byte { return append([]byte(nil), b...) }

type WriteBatch struct{ ops []Op }

func NewWriteBatch() *WriteBatch  { return &WriteBatch{} }
func (wb *WriteBatch) Destroy()   {}
func (wb *WriteBatch) Count() int { return len(wb.ops) }
func (wb *WriteBatch) Put(key, value []byte) {
	wb.ops = append(wb.ops, Op{CF: 0, Key: cp(key), Value: cp(value)})
}
func (wb *WriteBatch) Delete(key []byte) {
	wb.ops = append(wb.ops, Op{CF: 0, Delete: true, Key: cp(key)})
}
func (wb *WriteBatch) PutCF(cf *ColumnFamilyHandle, key, value []byte) {
	wb.ops = append(wb.ops, Op{CF: cf.idx, Key: cp(key), Value: cp(value)})
}
func (wb *WriteBatch) DeleteCF(cf *ColumnFamilyHandle, key []byte) {
	wb.ops = append(wb.ops, Op{CF: cf.idx, Delete: true, Key: cp(key)})
}

type Iterator struct {
	items []kv
	pos   int
}

func (db *DB) NewIterator(ro *ReadOptions) *Iterator {
	return &Iterator{items: db.s.sorted(0), pos: -1}
}
func (db *DB) NewIteratorCF(ro *ReadOptions, cf *ColumnFamilyHandle) *Iterator {
	return &Iterator{items: db.s.sorted(cf.idx), pos: -1}
}
func (it *Iterator) Close()        {}
func (it *Iterator) SeekToFirst()  { it.pos = 0 }
func (it *Iterator) Valid() bool   { return it.pos >= 0 && it.pos < len(it.items) }
func (it *Iterator) Next()         { it.pos++ }
func (it *Iterator) Key() *Slice   { return &Slice{data: it.items[it.pos].k} }
func (it *Iterator) Value() *Slice { return &Slice{data: it.items[it.pos].v} }
func (it *Iterator) Err() error    { return nil }
