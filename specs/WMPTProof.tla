----------------------------- MODULE WMPTProof -----------------------------
(***************************************************************************)
(* Block proofs of the weighted trie and an adversary (C10).               *)
(*                                                                         *)
(* Tries of the scope have two key nibbles (n0, n1): a root branch over    *)
(* n0; below a nibble with one key a short node leading to the value,      *)
(* below a nibble with several keys a short node leading to a branch over  *)
(* n1 whose children are the values (the executor places n0 at nibble 0    *)
(* and n1 at nibble 63 of a 32-byte key, which gives exactly this shape).  *)
(*                                                                         *)
(* A proof is the sequence of node records from the root to the owning     *)
(* value, at the granularity of the wire format:                           *)
(*    [t |-> "B", kids |-> <<slot>>*16]   slot = [h, w, p] (p: present)    *)
(*    [t |-> "S", key, h, w]              child hash and claimed weight    *)
(*    [t |-> "V", val, w]                                                  *)
(* Hashes are structural terms (collision freedom):                        *)
(*    H(V) = <<"V", w, val>>   H(S) = <<"S", key, H(child)>>               *)
(*    H(B) = <<"B", sum of claimed child weights, child hashes>>           *)
(* i.e. the branch hash binds the SUM of the child weights, not each one.  *)
(* The real hashes are sha3(weight || payload) for values AND branches     *)
(* (payload = value bytes resp. the 16 child hashes): there is no kind     *)
(* tag.  The terms above are tagged; the missing tag is modelled by the    *)
(* field `pre` a value record may carry: a value record whose bytes spell  *)
(* the preimage of a branch hashes to that branch's hash (action Imitate). *)
(*                                                                         *)
(* Verify is a transcription of core/util/wmpt/proof.go:verifyProof:       *)
(* navigation by the weights claimed inside the proof, re-hash of the path.*)
(* The adversary edits an honest proof; the property is                    *)
(*    Verify(p, b) yields the trusted root  =>  its value is the value of  *)
(*    the true owner of b.                                                 *)
(***************************************************************************)
EXTENDS Naturals, Sequences, FiniteSets, TLC, Json

CONSTANTS Tries,          \* set of tries: functions <<n0, n1>> -> [v, w]
          MaxEdits,
          AllowReweight,  \* adversary may move weight between siblings keeping the sum
          AllowImitate,   \* adversary may pass a node's hash preimage off as a value record (hashes carry no kind tag)
          GenMode

NoHash == <<"none">>                         \* hash slot of an absent child
None == [h |-> NoHash, w |-> 0, p |-> FALSE]  \* absent child slot
FailH == <<"fail">>
Nibs == 0..3   \* nibbles used by the scope (slots of a branch record)

---------------------------------------------------------------------------
(* content-level truth *)
Keys(T) == DOMAIN T
Less(a, b) == a[1] < b[1] \/ (a[1] = b[1] /\ a[2] < b[2])
RECURSIVE SumW(_, _)
SumW(T, S) == IF S = {} THEN 0 ELSE LET k == CHOOSE x \in S : TRUE IN T[k].w + SumW(T, S \ {k})
Total(T) == SumW(T, Keys(T))
Before(T, k) == SumW(T, {j \in Keys(T) : Less(j, k)})
Owner(T, b) == CHOOSE k \in Keys(T) : Before(T, k) < b /\ b <= Before(T, k) + T[k].w

---------------------------------------------------------------------------
(* honest structure and proof *)
Under(T, n0) == {k \in Keys(T) : k[1] = n0}
HV(T, k) == <<"V", T[k].w, T[k].v>>
SubW(T, n0) == SumW(T, Under(T, n0))
\* hash of the subtree below root slot n0 (a short node)
HB2(T, n0) == <<"B", SubW(T, n0), [n \in Nibs |-> IF <<n0, n>> \in Keys(T) THEN HV(T, <<n0, n>>) ELSE NoHash]>>
HS(T, n0) == IF Cardinality(Under(T, n0)) = 1
             THEN <<"S", "one", HV(T, CHOOSE k \in Under(T, n0) : TRUE)>>
             ELSE <<"S", "many", HB2(T, n0)>>
RootHash(T) == <<"B", Total(T), [n \in Nibs |-> IF Under(T, n) # {} THEN HS(T, n) ELSE NoHash]>>

RecRoot(T) == [t |-> "B", kids |-> [n \in Nibs |-> IF Under(T, n) # {} THEN [h |-> HS(T, n), w |-> SubW(T, n), p |-> TRUE] ELSE None]]
RecS(T, n0) == IF Cardinality(Under(T, n0)) = 1
               THEN [t |-> "S", key |-> "one", h |-> HV(T, CHOOSE k \in Under(T, n0) : TRUE), w |-> SubW(T, n0)]
               ELSE [t |-> "S", key |-> "many", h |-> HB2(T, n0), w |-> SubW(T, n0)]
RecB2(T, n0) == [t |-> "B", kids |-> [n \in Nibs |-> IF <<n0, n>> \in Keys(T)
                                                     THEN [h |-> HV(T, <<n0, n>>), w |-> T[<<n0, n>>].w, p |-> TRUE] ELSE None]]
RecV(T, k) == [t |-> "V", val |-> T[k].v, w |-> T[k].w]

Honest(T, b) ==
  LET k == Owner(T, b) IN
  IF Cardinality(Under(T, k[1])) = 1
  THEN <<RecRoot(T), RecS(T, k[1]), RecV(T, k)>>
  ELSE <<RecRoot(T), RecS(T, k[1]), RecB2(T, k[1]), RecV(T, k)>>

---------------------------------------------------------------------------
(* the verifier, transcribed *)
Fail == [ok |-> FALSE, h |-> FailH, val |-> "", nxt |-> 0]

RECURSIVE KidsSum(_, _)
KidsSum(kids, S) == IF S = {} THEN 0 ELSE LET n == CHOOSE x \in S : TRUE IN
                      kids[n].w + KidsSum(kids, S \ {n})

RECURSIVE Ver(_, _, _), VerB(_, _, _, _, _)
\* verify record i of proof p for block b: [ok, h (recomputed hash), val, nxt (next unread index)]
Ver(p, b, i) ==
  IF i > Len(p) THEN Fail
  ELSE LET r == p[i] IN
       CASE r.t = "V" -> IF b > r.w THEN Fail
                         ELSE [ok |-> TRUE, h |-> IF "pre" \in DOMAIN r /\ r.pre[2] = r.w THEN r.pre ELSE <<"V", r.w, r.val>>,
                               val |-> r.val, nxt |-> i + 1]
         [] r.t = "S" -> IF b > r.w THEN Fail
                         ELSE LET s == Ver(p, b, i + 1) IN
                              IF ~s.ok THEN Fail ELSE [ok |-> TRUE, h |-> <<"S", r.key, s.h>>, val |-> s.val, nxt |-> s.nxt]
         [] r.t = "B" -> VerB(p, b, i, r, 0)
         [] OTHER -> Fail
\* scan the slots of branch record r from slot n with remaining block number b
VerB(p, b, i, r, n) ==
  IF n > 3 THEN Fail    \* weight not in range
  ELSE IF ~r.kids[n].p THEN VerB(p, b, i, r, n + 1)
  ELSE IF b <= r.kids[n].w
       THEN LET s == Ver(p, b, i + 1) IN
            IF ~s.ok THEN Fail
            ELSE [ok |-> TRUE,
                  h |-> <<"B", KidsSum(r.kids, Nibs), [m \in Nibs |-> IF m = n THEN s.h ELSE r.kids[m].h]>>,
                  val |-> s.val, nxt |-> s.nxt]
       ELSE VerB(p, b - r.kids[n].w, i, r, n + 1)

Verify(p, b) == IF Len(p) = 0 THEN Fail ELSE Ver(p, b, 1)

---------------------------------------------------------------------------
(* the adversary *)
VARIABLES trie, blk, proof, edits

pvars == <<trie, blk, proof, edits>>

PInit == /\ trie \in Tries
         /\ blk \in 1..Total(trie)
         /\ proof = Honest(trie, blk)
         /\ edits = <<>>

Edit(e, p2) ==
  /\ Len(edits) < MaxEdits
  /\ proof' = p2
  /\ edits' = Append(edits, e)
  /\ UNCHANGED <<trie, blk>>

IsB(i) == i \in 1..Len(proof) /\ proof[i].t = "B"

Reweight ==
  /\ AllowReweight
  /\ \E i \in 1..Len(proof), j \in Nibs, k \in Nibs, d \in 1..2 :
        /\ IsB(i) /\ j # k /\ proof[i].kids[j].p /\ proof[i].kids[k].p /\ proof[i].kids[j].w > d
        /\ Edit([e |-> "reweight", i |-> i, j |-> j, k |-> k, d |-> d],
                [proof EXCEPT ![i].kids[j].w = @ - d, ![i].kids[k].w = @ + d])
SwapSiblings ==
  \E i \in 1..Len(proof), j \in Nibs, k \in Nibs :
     /\ IsB(i) /\ j < k /\ proof[i].kids[j] # proof[i].kids[k]
     /\ Edit([e |-> "swap", i |-> i, j |-> j, k |-> k, d |-> 0],
             [proof EXCEPT ![i].kids[j] = proof[i].kids[k], ![i].kids[k] = proof[i].kids[j]])
SetWeight ==
  \E i \in 1..Len(proof), w \in 1..4 :
     /\ proof[i].t \in {"S", "V"} /\ proof[i].w # w
     /\ Edit([e |-> "setw", i |-> i, j |-> w, k |-> 0, d |-> 0], [proof EXCEPT ![i].w = w])
SetValue ==
  \E i \in 1..Len(proof) :
     /\ proof[i].t = "V"
     /\ Edit([e |-> "setval", i |-> i, j |-> 0, k |-> 0, d |-> 0], [proof EXCEPT ![i].val = "forged"])
Drop ==
  \E i \in 1..Len(proof) :
     Edit([e |-> "drop", i |-> i, j |-> 0, k |-> 0, d |-> 0], SubSeq(proof, 1, i - 1) \o SubSeq(proof, i + 1, Len(proof)))
Dup ==
  \E i \in 1..Len(proof) :
     Edit([e |-> "dup", i |-> i, j |-> 0, k |-> 0, d |-> 0], SubSeq(proof, 1, i) \o SubSeq(proof, i, Len(proof)))
\* replace the tail from record i by the tail of the honest proof for another block (splice / substitution)
Splice ==
  \E i \in 1..Len(proof), b2 \in 1..Total(trie), i2 \in 1..4 :
     /\ b2 # blk /\ i2 <= Len(Honest(trie, b2))
     /\ Edit([e |-> "splice", i |-> i, j |-> b2, k |-> i2, d |-> 0],
             SubSeq(proof, 1, i - 1) \o SubSeq(Honest(trie, b2), i2, Len(Honest(trie, b2))))

\* replace branch record i and everything after it by a value record spelling the branch's hash preimage
Imitate ==
  /\ AllowImitate
  /\ \E i \in 1..Len(proof) :
        /\ IsB(i)
        /\ Edit([e |-> "imitate", i |-> i, j |-> 0, k |-> 0, d |-> 0],
                SubSeq(proof, 1, i - 1) \o
                <<[t |-> "V", val |-> "#preimage", w |-> KidsSum(proof[i].kids, Nibs),
                   pre |-> <<"B", KidsSum(proof[i].kids, Nibs), [m \in Nibs |-> proof[i].kids[m].h]>>]>>)

PNext == Imitate \/ Reweight \/ SwapSiblings \/ SetWeight \/ SetValue \/ Drop \/ Dup \/ Splice
PSpec == PInit /\ [][PNext]_pvars

---------------------------------------------------------------------------
TrueVal == trie[Owner(trie, blk)].v
Result == Verify(proof, blk)

\* completeness: the honest proof verifies to the root and the owner's value
Complete == edits = <<>> => (Result.ok /\ Result.h = RootHash(trie) /\ Result.val = TrueVal)
\* soundness: no edited proof yields the trusted root with another value
Sound == (Result.ok /\ Result.h = RootHash(trie)) => Result.val = TrueVal

\* plans for the executor: every explored (trie, block, edit sequence) with the model's verdict
TrieJson == [k \in {ToString(x[1]) \o ToString(x[2]) : x \in Keys(trie)} |->
               LET x == CHOOSE y \in Keys(trie) : ToString(y[1]) \o ToString(y[2]) = k IN <<trie[x].v, trie[x].w>>]
EmitPlan == ~GenMode \/ PrintT(<<"VERIF_HIST", ToJson([trie |-> TrieJson, block |-> blk, edits |-> edits,
                                                      owner |-> ToString(Owner(trie, blk)[1]) \o ToString(Owner(trie, blk)[2]),
                                                      mforged |-> ~Sound])>>)
=============================================================================
