------------------------------- MODULE Currency -------------------------------
(***************************************************************************)
(* Exact arithmetic oracle for package currency (C18).                     *)
(*                                                                         *)
(* TLC integers are 32-bit, so unsigned integers are little-endian         *)
(* sequences of base-10^4 limbs (zero = <<>>, no leading zero limbs).      *)
(* For every helper the specification states the REQUIRED outcome:         *)
(*   ok with the mathematically exact result when it is representable in   *)
(*   the result type, error otherwise; never a panic, never a wrapped or   *)
(*   saturated amount.                                                     *)
(*                                                                         *)
(* Part 2 transcribes the overflow-detection idioms of the code for a      *)
(* machine word of W bits and checks them exhaustively for small W         *)
(* (Idiom = "divide_back_guarded" is the code as it stands; "divide_back_  *)
(* nonzero" is the idiom before the fix, refuted by TLC).                  *)
(***************************************************************************)
EXTENDS Naturals, Sequences, FiniteSets, TLC

B == 10000

RECURSIVE Norm(_)
Norm(a) == IF Len(a) > 0 /\ a[Len(a)] = 0 THEN Norm(SubSeq(a, 1, Len(a) - 1)) ELSE a
At(a, i) == IF i <= Len(a) THEN a[i] ELSE 0
Max(x, y) == IF x > y THEN x ELSE y

RECURSIVE AddC(_, _, _, _)
AddC(a, b, i, c) ==
  IF i > Max(Len(a), Len(b)) THEN (IF c = 0 THEN <<>> ELSE <<c>>)
  ELSE LET s == At(a, i) + At(b, i) + c IN <<s % B>> \o AddC(a, b, i + 1, s \div B)
AddL(a, b) == Norm(AddC(a, b, 1, 0))

RECURSIVE CmpAt(_, _, _)
CmpAt(a, b, i) == IF i = 0 THEN 0 ELSE IF At(a, i) < At(b, i) THEN 1 ELSE IF At(a, i) > At(b, i) THEN 2 ELSE CmpAt(a, b, i - 1)
\* 0: equal, 1: a < b, 2: a > b
CmpL(a, b) == CmpAt(a, b, Max(Len(a), Len(b)))
LeqL(a, b) == CmpL(a, b) # 2
LtL(a, b) == CmpL(a, b) = 1

RECURSIVE SubC(_, _, _, _)
\* a - b for a >= b
SubC(a, b, i, br) ==
  IF i > Len(a) THEN <<>>
  ELSE LET d == At(a, i) + B - At(b, i) - br IN <<d % B>> \o SubC(a, b, i + 1, IF d < B THEN 1 ELSE 0)
SubL(a, b) == Norm(SubC(a, b, 1, 0))

RECURSIVE MulSmallC(_, _, _, _)
MulSmallC(a, d, i, c) ==
  IF i > Len(a) THEN (IF c = 0 THEN <<>> ELSE <<c>>)
  ELSE LET p == a[i] * d + c IN <<p % B>> \o MulSmallC(a, d, i + 1, p \div B)
MulSmall(a, d) == Norm(MulSmallC(a, d, 1, 0))
Shift(a, k) == IF a = <<>> THEN <<>> ELSE [i \in 1..k |-> 0] \o a
RECURSIVE MulAcc(_, _, _)
MulAcc(a, b, i) == IF i > Len(b) THEN <<>> ELSE AddL(Shift(MulSmall(a, b[i]), i - 1), MulAcc(a, b, i + 1))
MulL(a, b) == Norm(MulAcc(a, b, 1))

RECURSIVE Pow10L(_)
Pow10L(k) == IF k = 0 THEN <<1>> ELSE MulSmall(Pow10L(k - 1), 10)

MaxU64 == <<1615, 955, 737, 6744, 1844>>      \* 18446744073709551615
MaxI64 == <<5807, 5477, 368, 3372, 922>>       \* 9223372036854775807
Two53  == <<992, 5474, 1992, 9007>>            \* 9007199254740992

OkR(v) == [res |-> "ok", out |-> v]
ErrR == [res |-> "err", out |-> <<>>]

\* required outcomes -------------------------------------------------------
AddCoin(a, b)   == LET s == AddL(a, b) IN IF LeqL(s, MaxU64) THEN OkR(s) ELSE ErrR
MinusCoin(a, b) == IF LeqL(b, a) THEN OkR(SubL(a, b)) ELSE ErrR
MultCoin(a, b)  == LET p == MulL(a, b) IN IF LeqL(p, MaxU64) THEN OkR(p) ELSE ErrR
MinCoin(a, b)   == IF LeqL(a, b) THEN OkR(a) ELSE OkR(b)
Int64ToCoin(x)  == IF x.neg /\ x.mag # <<>> THEN ErrR ELSE OkR(x.mag)
AddInt64(a, x)  == IF x.neg /\ x.mag # <<>> THEN ErrR ELSE AddCoin(a, x.mag)
MinusInt64(a, x) == IF x.neg /\ x.mag # <<>> THEN ErrR ELSE MinusCoin(a, x.mag)
CoinInt64(a)    == IF LeqL(a, MaxI64) THEN OkR(a) ELSE ErrR
\* division with remainder is judged by multiplication: q * d + r = a /\ r < d
DistributeOK(a, x, e) ==
  IF (x.neg /\ x.mag # <<>>) \/ x.mag = <<>> THEN e.res = "err"
  ELSE e.res = "ok" /\ AddL(MulL(e.out, x.mag), e.rem) = a /\ LtL(e.rem, x.mag)
\* floats: f = [neg, nan, inf, int (exact integer part), frac]
FloatBad(f) == f.nan \/ f.inf \/ (f.neg /\ (f.int # <<>> \/ f.frac))
Float64ToCoin(f) == IF FloatBad(f) \/ ~LeqL(f.int, MaxU64) THEN ErrR ELSE OkR(f.int)
\* MultFloat64(c, a): p is the IEEE product float64(c) * a
MultFloat64(f, p) == IF FloatBad(f) THEN ErrR ELSE Float64ToCoin(p)
\* ParseZCN: d = [neg, nan, inf, digits, exp, ndig]: the amount is digits * 10^exp
ParseZCNOK(d, e) ==
  IF d.nan \/ d.inf \/ (d.neg /\ d.digits # <<>>) THEN e.res = "err"
  ELSE IF d.digits = <<>> THEN e.res = "ok" /\ e.out = <<>>
  ELSE IF d.exp + 10 < 0 THEN e.res = "err"                    \* more than 10 decimal places
  ELSE IF d.exp + 10 >= 20 THEN e.res = "err"                  \* >= 10^20 > 2^64
  ELSE LET v == MulL(d.digits, Pow10L(d.exp + 10)) IN
       IF LeqL(v, MaxI64) THEN e.res = "ok" /\ e.out = v
       ELSE IF LeqL(v, MaxU64) THEN e.res = "err" \/ (e.res = "ok" /\ e.out = v)   \* in (MaxInt64, MaxUint64]: either
       ELSE e.res = "err"

---------------------------------------------------------------------------
(* Part 2: overflow idioms on W-bit words *)
CONSTANTS W, Idiom
VARIABLES x, y
RECURSIVE Pow2R(_)
Pow2R(k) == IF k = 0 THEN 1 ELSE 2 * Pow2R(k - 1)
M == Pow2R(W)
IErr == M    \* out-of-range marker for 'the idiom reports an error'
IInit == x \in 0..(M - 1) /\ y \in 0..(M - 1)
INext == UNCHANGED <<x, y>>
ISpec == IInit /\ [][INext]_<<x, y>>

MulIdiom(c, b) ==
  LET a == (c * b) % M IN
  IF Idiom = "divide_back_nonzero"
  THEN IF a # 0 /\ a \div c # b THEN IErr ELSE a           \* a != 0 && a/c != b  (before the fix)
  ELSE IF c # 0 /\ a \div c # b THEN IErr ELSE a           \* c != 0 && a/c != b
AddIdiom(c, b) == LET s == (c + b) % M IN IF s < c \/ s < b THEN IErr ELSE s
SubIdiom(c, b) == IF b > c THEN IErr ELSE c - b

MulExact == IF x * y < M THEN MulIdiom(x, y) = x * y ELSE MulIdiom(x, y) = IErr
AddExact == IF x + y < M THEN AddIdiom(x, y) = x + y ELSE AddIdiom(x, y) = IErr
SubExact == IF y <= x THEN SubIdiom(x, y) = x - y ELSE SubIdiom(x, y) = IErr

\* sanity of the limb arithmetic against native integers on small values
ToL(v) == Norm(<<v % B, (v \div B) % B, v \div (B * B)>>)
LimbSanity ==
  /\ AddL(ToL(x * 997), ToL(y * 1009)) = ToL(x * 997 + y * 1009)
  /\ MulL(ToL(x * 31), ToL(y * 37)) = ToL(x * 31 * y * 37)
  /\ (x >= y => SubL(ToL(x * 101), ToL(y * 101)) = ToL((x - y) * 101))
  /\ LeqL(ToL(x), ToL(y)) = (x <= y)
=============================================================================
