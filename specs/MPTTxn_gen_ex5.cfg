SPECIFICATION TSpec
CONSTANTS
  Paths <- TPaths
  Values <- TValues
  Children <- TChildren
  Depth = 5
  GenMode = TRUE
CHECK_DEADLOCK FALSE
