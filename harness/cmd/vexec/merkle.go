package main

import (
	"math/rand"

	"verifharness/exec"
	"verifharness/tr"
)

func init() { components["merkle"] = runMerkle }

func runMerkle(args []string) (map[string]any, error) {
	c := newCommon("merkle")
	maxn := c.fs.Int("maxn", 300, "all leaf counts 1..maxn, every index")
	c.fs.Parse(args)
	w, err := tr.New(*c.out, *c.shards)
	if err != nil {
		return nil, err
	}
	st := &exec.MStats{Distinct: map[string]bool{}}
	r := rand.New(rand.NewSource(*c.seed))
	tid := 0
	for n := 1; n <= *maxn; n++ {
		idx := make([]int, n)
		for i := range idx {
			idx[i] = i
		}
		tid++
		exec.RunMerkle(w, st, tid, n, idx, r)
	}
	// sampled larger trees: boundary indices and random ones
	for i := 0; i < *c.n; i++ {
		n := *maxn + 1 + r.Intn(4000)
		if i%5 == 0 {
			n = 1<<uint(9+r.Intn(4)) + r.Intn(3) - 1
		}
		idx := []int{0, 1, n - 1, n - 2, n / 2, n/2 + 1}
		for k := 0; k < 10; k++ {
			idx = append(idx, r.Intn(n))
		}
		var ok []int
		for _, x := range idx {
			if x >= 0 && x < n {
				ok = append(ok, x)
			}
		}
		tid++
		exec.RunMerkle(w, st, tid, n, ok, r)
	}
	if err := w.Close(); err != nil {
		return nil, err
	}
	return map[string]any{"traces": st.Traces, "events": st.Events, "paths": st.Paths, "panics": st.Panics,
		"distinct_leaf_counts": len(st.Distinct), "samples": []string{}}, nil
}
