--------------------------- MODULE StateCacheTrace ---------------------------
(***************************************************************************)
(* Trace validation of core/statecache against StateCache.tla (C06, C07).  *)
(* Deterministic mode.  Every Get is judged by                             *)
(*     result = Miss \/ result = Truth           (C06, always)             *)
(*     Truth # Miss => result = Truth            (C07, inside capacities)  *)
(* and no call may panic.  The executor mutates every value it hands in or *)
(* receives; the specification has no action for that, so any effect of    *)
(* sharing shows up as a wrong value.                                      *)
(***************************************************************************)
EXTENDS StateCache, Json, IOUtils

Trace == ndJsonDeserialize(IOEnv.TRACE)

VARIABLES l, bad, nbad, ntr, cfg

tvars == <<S, last, l, bad, nbad, ntr, cfg>>

MaxBad == 40
\* deviations are kept per class (operation, failed checks, deviation flags): a flood of one class never hides another
KeepBad(bd, op, fl, dv) == Cardinality({b \in bd : b[3] = op /\ b[4] = fl /\ b[5] = dv}) < 6 /\ Cardinality(bd) < 40 * MaxBad
Flag(cond, name) == IF cond THEN {} ELSE {name}

Result(e) == IF e.res = "hit" THEN e.val ELSE Miss

\* judged lookup: truth, the key, and whether the context is still in use
GetFlags(e, truth, judged) ==
  IF ~judged THEN Flag(e.res # "panic", "panic")
  ELSE Flag(e.res # "panic", "panic")
       \cup Flag(HitOK(truth, Result(e)), "wrongvalue")
       \cup Flag(~cfg.small \/ e.k \in S.removed \/ MustHitOK(truth, Result(e)), "musthit")

Dev(e) == IF "k" \in DOMAIN e /\ e.k # "" /\ EvictCloser(S, e.k, cfg.cap) THEN {"EvictCloser"} ELSE {}

KnownB(b) == b \in DOMAIN S.bchash
KnownT(t) == t \in DOMAIN S.txblock

\* <<next state, flags>> for an event
Step(e) ==
  CASE e.op = "reset"    -> <<InitS, {}>>
    [] e.op = "newblock" -> <<NewBlock(S, e.b, e.h, e.p), Flag(e.res = "ok", "panic")>>
    [] e.op = "newtxn"   -> <<NewTxn(S, e.t, e.b), Flag(e.res = "ok", "panic")>>
    [] e.op = "tset"     -> <<TxnSet(S, e.t, e.k, e.v), Flag(e.res = "ok", "panic")>>
    [] e.op = "tremove"  -> <<TxnRemove(S, e.t, e.k), Flag(e.res = "ok", "panic")>>
    [] e.op = "tcommit"  -> <<TxnCommit(S, e.t), Flag(e.res = "ok", "panic")>>
    [] e.op = "bset"     -> <<BlockSet(S, e.b, e.k, e.v), Flag(e.res = "ok", "panic")>>
    [] e.op = "bcommit"  -> <<BlockCommit(S, e.b), Flag(e.res = "ok", "panic")>>
    [] e.op = "sethash"  -> <<SetBlockHash(S, e.b, e.h), Flag(e.res = "ok", "panic")>>
    [] e.op = "sremove"  -> <<RemoveKey(S, e.k), Flag(e.res = "ok", "panic")>>
    [] e.op = "tget"     ->
         LET b == S.txblock[e.t]
             through == e.k \notin DOMAIN S.tw[e.t] /\ e.k \notin DOMAIN S.bw[b]
         IN  <<IF through THEN NoteLookup(S, S.bcprev[b], e.k) ELSE S,
               GetFlags(e, TruthT(S, e.t, e.k), b \notin S.closed)>>
    [] e.op = "bget"     ->
         LET through == e.k \notin DOMAIN S.bw[e.b]
         IN  <<IF through THEN NoteLookup(S, S.bcprev[e.b], e.k) ELSE S,
               GetFlags(e, TruthB(S, e.b, e.k), e.b \notin S.closed)>>
    [] e.op \in {"sget", "qget"} ->
         <<NoteLookup(S, e.h, e.k), GetFlags(e, TruthH(S, e.h, e.k), TRUE)>>
    [] OTHER -> <<S, {"unknown-op"}>>

TraceInit == /\ S = InitS /\ last = [op |-> "init"] /\ l = 1 /\ bad = {} /\ nbad = 0 /\ ntr = 0
             /\ cfg = [small |-> TRUE, cap |-> 200]

TraceNext ==
  /\ l <= Len(Trace)
  /\ LET e == Trace[l]
         r == Step(e)
         f == r[2]
         d == Dev(e)
     IN  /\ S' = r[1]
         /\ last' = [op |-> e.op]
         /\ cfg' = IF e.op = "reset" THEN [small |-> e.small, cap |-> e.cap] ELSE cfg
         /\ l' = l + 1
         /\ ntr' = IF e.op = "reset" THEN ntr + 1 ELSE ntr
         /\ nbad' = IF f = {} THEN nbad ELSE nbad + 1
         /\ bad' = IF f = {} \/ ~KeepBad(bad, e.op, f, d) THEN bad
                   ELSE bad \cup {<<e.tid, l, e.op, f, d>>}

TraceSpec == TraceInit /\ [][TraceNext]_tvars

Report == l <= Len(Trace) \/ PrintT(<<"VERIF_RESULT", l - 1, ntr, nbad, bad>>)
=============================================================================
