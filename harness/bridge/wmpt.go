package bridge

import (
	"bytes"
	"encoding/binary"
	"errors"
	"sort"

	"github.com/fxamacker/cbor/v2"
	"golang.org/x/crypto/sha3"
)

// WNode is a parsed weighted-trie node record (independent reading of the
// published CBOR layout: map with one integer key 10..14).
type WNode struct {
	Kind   byte // 'B' branch, 'V' value, 'S' short, 'N' nil, 'H' hash reference
	Hash   []byte
	Value  []byte    // V
	Weight uint64    // V, H; for S the child's weight
	Key    []byte    // S: nibbles
	Child  []byte    // S: child hash
	Kids   [16]*WKid // B
}

// WKid is one child slot of a branch record.
type WKid struct {
	Hash      []byte
	Weight    uint64
	Embedded  bool   // a short-node child is embedded: key and value hash are inline
	ValueHash []byte // embedded short: hash of the short node's child
	Key       []byte // embedded short: key nibbles
}

var ErrWFormat = errors.New("bridge: malformed weighted-trie node")

func sha(b ...[]byte) []byte {
	h := sha3.New256()
	for _, x := range b {
		h.Write(x)
	}
	return h.Sum(nil)
}

// EmptyState is the hash of the empty trie.
var EmptyState = sha([]byte{})

func be64(x uint64) []byte {
	var b [8]byte
	binary.BigEndian.PutUint64(b[:], x)
	return b[:]
}

func asBytes(x any) ([]byte, bool) {
	switch v := x.(type) {
	case []byte:
		return v, true
	case nil:
		return nil, true
	}
	return nil, false
}

func asUint(x any) (uint64, bool) {
	switch v := x.(type) {
	case uint64:
		return v, true
	case int64:
		if v >= 0 {
			return uint64(v), true
		}
	}
	return 0, false
}

// ParseWNode decodes one stored / transmitted node record.
func ParseWNode(data []byte) (*WNode, error) {
	var m map[int]any
	if err := cbor.Unmarshal(data, &m); err != nil {
		return nil, ErrWFormat
	}
	if len(m) != 1 {
		return nil, ErrWFormat
	}
	for k, v := range m {
		switch k {
		case 10:
			arr, ok := v.([]any)
			if !ok || len(arr) != 2 {
				return nil, ErrWFormat
			}
			n := &WNode{Kind: 'B'}
			var ok1 bool
			if n.Hash, ok1 = asBytes(arr[0]); !ok1 {
				return nil, ErrWFormat
			}
			kids, ok := arr[1].([]any)
			if !ok && arr[1] != nil {
				return nil, ErrWFormat
			}
			if len(kids) > 16 {
				return nil, ErrWFormat
			}
			for i, kv := range kids {
				cb, ok := asBytes(kv)
				if !ok {
					return nil, ErrWFormat
				}
				if len(cb) == 0 {
					continue
				}
				if len(cb) < 40 || (len(cb) > 40 && len(cb) < 72) {
					return nil, ErrWFormat
				}
				kid := &WKid{Hash: cb[:32], Weight: binary.BigEndian.Uint64(cb[32:40])}
				if len(cb) > 40 {
					kid.Embedded = true
					kid.ValueHash = cb[40:72]
					kid.Key = cb[72:]
				}
				n.Kids[i] = kid
			}
			return n, nil
		case 11:
			arr, ok := v.([]any)
			if !ok || len(arr) != 3 {
				return nil, ErrWFormat
			}
			n := &WNode{Kind: 'V'}
			var o1, o2, o3 bool
			n.Value, o1 = asBytes(arr[0])
			n.Hash, o2 = asBytes(arr[1])
			n.Weight, o3 = asUint(arr[2])
			if !o1 || !o2 || !o3 {
				return nil, ErrWFormat
			}
			return n, nil
		case 12:
			arr, ok := v.([]any)
			if !ok || len(arr) != 3 {
				return nil, ErrWFormat
			}
			n := &WNode{Kind: 'S'}
			var o1, o2 bool
			n.Key, o1 = asBytes(arr[0])
			n.Hash, o2 = asBytes(arr[1])
			vb, o3 := asBytes(arr[2])
			if !o1 || !o2 || !o3 || len(vb) != 40 {
				return nil, ErrWFormat
			}
			n.Child = vb[:32]
			n.Weight = binary.BigEndian.Uint64(vb[32:])
			return n, nil
		case 13:
			return &WNode{Kind: 'N', Hash: EmptyState}, nil
		case 14:
			arr, ok := v.([]any)
			if !ok || len(arr) != 2 {
				return nil, ErrWFormat
			}
			n := &WNode{Kind: 'H'}
			var o1, o2 bool
			n.Hash, o1 = asBytes(arr[0])
			n.Weight, o2 = asUint(arr[1])
			if !o1 || !o2 {
				return nil, ErrWFormat
			}
			return n, nil
		}
	}
	return nil, ErrWFormat
}

// ContentHash recomputes the node's hash from its content by the published rules.
func (n *WNode) ContentHash() []byte {
	switch n.Kind {
	case 'V':
		return sha(be64(n.Weight), n.Value)
	case 'S':
		return sha(n.Key, n.Child)
	case 'B':
		var total uint64
		parts := [][]byte{nil}
		for _, k := range n.Kids {
			if k == nil {
				parts = append(parts, EmptyState)
				continue
			}
			total += k.Weight
			parts = append(parts, k.Hash)
		}
		parts[0] = be64(total)
		return sha(parts...)
	case 'N':
		return EmptyState
	}
	return n.Hash
}

// SelfConsistent reports whether the record's hash field and embedded short
// children agree with the content.
func (n *WNode) SelfConsistent() bool {
	if n.Kind == 'H' {
		return true
	}
	if !bytes.Equal(n.Hash, n.ContentHash()) {
		return false
	}
	if n.Kind == 'B' {
		for _, k := range n.Kids {
			if k != nil && k.Embedded && !bytes.Equal(k.Hash, sha(k.Key, k.ValueHash)) {
				return false
			}
		}
	}
	return true
}

// Needs lists the hashes a loader must fetch after loading this record
// (embedded short children are not fetched themselves, their child is).
func (n *WNode) Needs() [][]byte {
	var out [][]byte
	switch n.Kind {
	case 'S':
		out = append(out, n.Child)
	case 'B':
		for _, k := range n.Kids {
			if k == nil {
				continue
			}
			if k.Embedded {
				out = append(out, k.ValueHash)
			} else {
				out = append(out, k.Hash)
			}
		}
	}
	return out
}

// WEntry is one (key, value, weight) of a weighted trie.
type WEntry struct {
	Key    []byte // 32 bytes
	Value  []byte
	Weight uint64
}

func nibbles(key []byte) []byte {
	out := make([]byte, 2*len(key))
	for i, b := range key {
		out[2*i], out[2*i+1] = b>>4, b&15
	}
	return out
}

// WRoot computes, independently of the code under test, the root hash and
// total weight of the canonical weighted trie holding the entries.
func WRoot(entries []WEntry) ([]byte, uint64) {
	if len(entries) == 0 {
		return EmptyState, 0
	}
	es := append([]WEntry(nil), entries...)
	sort.Slice(es, func(i, j int) bool { return bytes.Compare(es[i].Key, es[j].Key) < 0 })
	type item struct {
		nib []byte
		e   WEntry
	}
	items := make([]item, len(es))
	for i, e := range es {
		items[i] = item{nibbles(e.Key), e}
	}
	var build func(its []item, depth int) ([]byte, uint64)
	build = func(its []item, depth int) ([]byte, uint64) {
		if len(its) == 1 && depth == len(its[0].nib) {
			e := its[0].e
			return sha(be64(e.Weight), e.Value), e.Weight
		}
		// longest common prefix from depth
		l := len(its[0].nib) - depth
		for _, it := range its[1:] {
			j := 0
			for j < l && it.nib[depth+j] == its[0].nib[depth+j] {
				j++
			}
			l = j
		}
		if l > 0 {
			h, w := build(its, depth+l)
			return sha(its[0].nib[depth:depth+l], h), w
		}
		var total uint64
		parts := make([][]byte, 17)
		for c := 0; c < 16; c++ {
			var sub []item
			for _, it := range its {
				if int(it.nib[depth]) == c {
					sub = append(sub, it)
				}
			}
			if len(sub) == 0 {
				parts[c+1] = EmptyState
				continue
			}
			h, w := build(sub, depth+1)
			parts[c+1] = h
			total += w
		}
		parts[0] = be64(total)
		return sha(parts...), total
	}
	return build(items, 0)
}

// ParseProof splits a block proof / path export into its node records.
func ParseProof(data []byte) ([][]byte, error) {
	var outer []any
	dm, _ := cbor.DecOptions{MaxArrayElements: 1 << 20}.DecMode()
	if err := dm.Unmarshal(data, &outer); err != nil {
		return nil, ErrWFormat
	}
	if len(outer) != 1 {
		return nil, ErrWFormat
	}
	pairs, ok := outer[0].([]any)
	if !ok && outer[0] != nil {
		return nil, ErrWFormat
	}
	var out [][]byte
	for _, p := range pairs {
		arr, ok := p.([]any)
		if !ok || len(arr) != 1 {
			return nil, ErrWFormat
		}
		b, ok := asBytes(arr[0])
		if !ok {
			return nil, ErrWFormat
		}
		out = append(out, b)
	}
	return out, nil
}

// EncodeProof is the inverse of ParseProof.
func EncodeProof(records [][]byte) []byte {
	pairs := make([]any, len(records))
	for i, r := range records {
		pairs[i] = []any{r}
	}
	b, err := cbor.Marshal([]any{pairs})
	if err != nil {
		panic(err)
	}
	return b
}

// EncodeWNode re-encodes a parsed node in the published layout.
func EncodeWNode(n *WNode) []byte {
	var v any
	var key int
	switch n.Kind {
	case 'B':
		kids := make([]any, 16)
		for i, k := range n.Kids {
			if k == nil {
				kids[i] = nil
				continue
			}
			b := append(append([]byte(nil), k.Hash...), be64(k.Weight)...)
			if k.Embedded {
				b = append(append(b, k.ValueHash...), k.Key...)
			}
			kids[i] = b
		}
		key, v = 10, []any{n.Hash, kids}
	case 'V':
		key, v = 11, []any{n.Value, n.Hash, n.Weight}
	case 'S':
		key, v = 12, []any{n.Key, n.Hash, append(append([]byte(nil), n.Child...), be64(n.Weight)...)}
	case 'N':
		key, v = 13, map[int]any{}
	default:
		key, v = 14, []any{n.Hash, n.Weight}
	}
	b, err := cbor.Marshal(map[int]any{key: v})
	if err != nil {
		panic(err)
	}
	return b
}
