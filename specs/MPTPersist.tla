----------------------------- MODULE MPTPersist -----------------------------
(***************************************************************************)
(* Design-level model of saving rounds of a content-addressed trie to a    *)
(* persistent store, recording dead nodes per round, pruning, crashes and  *)
(* re-execution (C04, C05).                                                *)
(*                                                                         *)
(* The trie is the smallest one in which sharing, path copying, delete-    *)
(* then-recreate and resurrection exist: a depth-2 binary trie over the    *)
(* keys 0..3.  A node IS its content term (that is what a collision-free   *)
(* hash means); the creating version (origin) is part of the term exactly  *)
(* when OriginInId is TRUE, as in core/util/mpt_node.go:GetHashBytes.      *)
(*                                                                         *)
(*   store      set of nodes in the default column family                  *)
(*   deadRec    version -> set of nodes recorded dead in that round        *)
(*   roots      version -> root saved for that round                       *)
(*   cur        the round in progress (volatile): version, root, pending   *)
(*              new nodes and dead nodes as the change collector keeps them*)
(*   pruning    version being pruned below (0: none), prunedUpTo progress  *)
(*                                                                         *)
(* One action per storage operation, so every state is a crash point.      *)
(* Design mutants (constants): OriginInId = FALSE (identical content        *)
(* re-created later resurrects a dead hash), PruneSlack = 2 (prune also    *)
(* records of rounds ABOVE the prune version).                                         *)
(***************************************************************************)
EXTENDS Naturals, FiniteSets, Sequences, TLC, Json

CONSTANTS Keys,        \* subset of 0..3
          Vals,
          MaxVer,      \* rounds 1..MaxVer
          MaxOps,      \* operations per round
          OriginInId, PruneSlack,
          GenDepth     \* 0: design mode; > 0: emit every behaviour of GenDepth actions as a scenario for the executor

Nil == [k |-> "N"]
None == "none"

Org(v) == IF OriginInId THEN v ELSE 0
Leaf(val, v)  == [k |-> "L", val |-> val, o |-> Org(v)]
Inner(l, r, v) == [k |-> "I", l |-> l, r |-> r, o |-> Org(v)]

L(n) == IF n.k = "I" THEN n.l ELSE Nil
R(n) == IF n.k = "I" THEN n.r ELSE Nil

\* all nodes of a (sub)trie
RECURSIVE Nodes(_)
Nodes(n) == IF n.k = "N" THEN {} ELSE IF n.k = "L" THEN {n} ELSE {n} \cup Nodes(n.l) \cup Nodes(n.r)

\* lookup
Get(root, key) ==
  LET a == IF key \div 2 = 0 THEN L(root) ELSE R(root)
      b == IF key % 2 = 0 THEN L(a) ELSE R(a)
  IN  IF b.k = "L" THEN b.val ELSE None

\* path copy: new root after setting key to val (None = delete) at version v
MkInner(l, r, v) == IF l = Nil /\ r = Nil THEN Nil ELSE Inner(l, r, v)
Upd(root, key, val, v) ==
  LET hi == key \div 2
      lo == key % 2
      a  == IF hi = 0 THEN L(root) ELSE R(root)
      nl == IF val = None THEN Nil ELSE Leaf(val, v)
      na == IF lo = 0 THEN MkInner(nl, R(a), v) ELSE MkInner(L(a), nl, v)
  IN  IF hi = 0 THEN MkInner(na, R(root), v) ELSE MkInner(L(root), na, v)

VARIABLES store, deadRec, roots, cur, nops, pruning, prunedUpTo, lastVer, hist,
          floor   \* highest version a prune was ever started for: roots below it are given up

vars == <<store, deadRec, roots, cur, nops, pruning, prunedUpTo, lastVer, floor, hist>>

NoRound == [ver |-> 0, root |-> Nil, news |-> {}, deads |-> {}, saved |-> FALSE]

Init == /\ store = {} /\ deadRec = <<>> /\ roots = <<>> /\ cur = NoRound /\ nops = 0
        /\ pruning = 0 /\ prunedUpTo = 0 /\ lastVer = 0 /\ floor = 0 /\ hist = <<>>

FnPut(f, k, v) == [x \in (DOMAIN f) \cup {k} |-> IF x = k THEN v ELSE f[x]]
FnDelSet(f, S) == [x \in (DOMAIN f) \ S |-> f[x]]

LastRoot == IF lastVer = 0 THEN Nil ELSE roots[lastVer]

\* a round starts from the last completely saved root; after a crash the interrupted round is
\* re-executed at the same version
StartRound ==
  /\ cur.ver = 0 /\ pruning = 0
  /\ lastVer < MaxVer
  /\ cur' = [NoRound EXCEPT !.ver = lastVer + 1, !.root = LastRoot]
  /\ nops' = 0
  /\ UNCHANGED <<store, deadRec, roots, pruning, prunedUpTo, lastVer, floor>>

\* change collector bookkeeping for replacing the node set `replaced` by `created`
Collect(c, replaced, created) ==
  LET rep == replaced \ created
      cre == created \ replaced
  IN  [c EXCEPT !.news = (c.news \ rep) \cup cre,
                !.deads = (c.deads \ cre) \cup (rep \ c.news)]

Op(key, val) ==
  /\ cur.ver > 0 /\ ~cur.saved /\ nops < MaxOps
  /\ LET nr == Upd(cur.root, key, val, cur.ver)
     IN  cur' = [Collect(cur, Nodes(cur.root) \ Nodes(nr), Nodes(nr) \ Nodes(cur.root)) EXCEPT !.root = nr]
  /\ nops' = nops + 1
  /\ UNCHANGED <<store, deadRec, roots, pruning, prunedUpTo, lastVer, floor>>

\* SaveChanges(includeDeletes = false): one atomic batch of all pending new nodes
SaveBatch ==
  /\ cur.ver > 0 /\ ~cur.saved
  /\ store' = store \cup cur.news
  /\ roots' = FnPut(roots, cur.ver, cur.root)
  /\ cur' = [cur EXCEPT !.saved = TRUE]
  /\ UNCHANGED <<deadRec, nops, pruning, prunedUpTo, lastVer, floor>>

\* RecordDeadNodes: one put into the dead-nodes column family; completes the round
RecordDead ==
  /\ cur.ver > 0 /\ cur.saved
  /\ deadRec' = FnPut(deadRec, cur.ver, cur.deads)
  /\ lastVer' = cur.ver
  /\ cur' = NoRound
  /\ UNCHANGED <<store, roots, nops, pruning, prunedUpTo, floor>>

\* PruneBelowVersion(pv): delete the nodes recorded in rounds < pv (one record per step = one
\* delete batch), then drop the records (one atomic batch)
StartPrune(pv) ==
  /\ cur.ver = 0 /\ pruning = 0
  /\ pv \in 1..lastVer
  /\ pruning' = pv /\ prunedUpTo' = 0
  /\ floor' = IF pv > floor THEN pv ELSE floor
  /\ UNCHANGED <<store, deadRec, roots, cur, nops, lastVer>>

PruneLimit == pruning + PruneSlack     \* records of rounds < PruneLimit are pruned

PruneDeleteBatch ==
  /\ pruning > 0
  /\ \E r \in DOMAIN deadRec :
        /\ r < PruneLimit /\ r > prunedUpTo
        /\ \A q \in DOMAIN deadRec : (q < PruneLimit /\ q > prunedUpTo) => r <= q
        /\ store' = store \ deadRec[r]
        /\ prunedUpTo' = r
  /\ UNCHANGED <<deadRec, roots, cur, nops, pruning, lastVer, floor>>

PruneDropRecords ==
  /\ pruning > 0
  /\ ~\E r \in DOMAIN deadRec : r < PruneLimit /\ r > prunedUpTo
  /\ deadRec' = FnDelSet(deadRec, {r \in DOMAIN deadRec : r < PruneLimit})
  \* roots below the prune version are no longer retained
  /\ roots' = FnDelSet(roots, {v \in DOMAIN roots : v < pruning})
  /\ pruning' = 0 /\ prunedUpTo' = 0
  /\ UNCHANGED <<store, cur, nops, lastVer, floor>>

\* a crash loses all volatile state; the store keeps exactly what was applied
Crash ==
  /\ cur.ver > 0 \/ pruning > 0
  /\ cur' = NoRound /\ nops' = 0
  \* a saved-but-not-recorded round is not complete: its root is not retained until re-executed
  /\ roots' = IF cur.ver > 0 /\ cur.saved THEN FnDelSet(roots, {cur.ver}) ELSE roots
  /\ pruning' = 0 /\ prunedUpTo' = 0
  /\ UNCHANGED <<store, deadRec, lastVer, floor>>

A(name, k, v, pv) == [a |-> name, k |-> k, v |-> v, pv |-> pv]
Log(r) == IF GenDepth = 0 THEN hist' = hist
          ELSE /\ Len(hist) < GenDepth /\ hist' = Append(hist, r)
               /\ (IF Len(hist') < GenDepth THEN TRUE ELSE PrintT(<<"VERIF_HIST", ToJson([aops |-> hist'])>>))

Next ==
  \/ StartRound /\ Log(A("start", 0, "", 0))
  \/ SaveBatch /\ Log(A("savebatch", 0, "", 0))
  \/ RecordDead /\ Log(A("recorddead", 0, "", 0))
  \/ PruneDeleteBatch /\ Log(A("prunedelete", 0, "", 0))
  \/ PruneDropRecords /\ Log(A("prunedrop", 0, "", 0))
  \/ Crash /\ Log(A("crash", 0, "", 0))
  \/ \E k \in Keys : (\E v \in Vals : Op(k, v) /\ Log(A("op", k, v, 0))) \/ (Op(k, None) /\ Log(A("op", k, "", 0)))
  \/ \E pv \in 1..MaxVer : StartPrune(pv) /\ Log(A("startprune", 0, "", pv))

Spec == Init /\ [][Next]_vars

---------------------------------------------------------------------------
\* the version below which saved roots are (being) given up
Floor == floor

\* C04 + C05: every retained saved root is completely present, in every state (= at every crash point)
Safe == \A v \in DOMAIN roots : v < Floor \/ Nodes(roots[v]) \subseteq store

\* C05: a node recorded dead in round r is reachable neither from the root of r nor of any later round
DeadNotLive ==
  \A r \in DOMAIN deadRec : \A v \in DOMAIN roots : v >= r => deadRec[r] \cap Nodes(roots[v]) = {}

\* completeness of a round's pending changes (what the trie owes the store)
Complete == cur.ver > 0 => Nodes(cur.root) \subseteq store \cup cur.news

\* Nodes in the store that no retained root and no round in progress references (leaked by crashes)
\* never influence later behaviour: a later round that needs an identical node re-creates it as a
\* pending new node and saves it again.  The VIEW drops them (exact abstraction, far fewer states).
LiveSet == UNION {Nodes(roots[v]) : v \in DOMAIN roots} \cup Nodes(cur.root)
View == <<store \cap LiveSet, deadRec, roots, cur, nops, pruning, prunedUpTo, lastVer, floor>>
=============================================================================
