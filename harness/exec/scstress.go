package exec

import (
	"fmt"
	"math/rand"
	"sync"

	"verifharness/tr"

	"github.com/0chain/common/core/statecache"
)

// RunSCStress runs free-running committers and readers on one StateCache and
// emits one event in the format judged by StateCacheSchedTrace.tla.
func RunSCStress(w *tr.Writer, tid int, r *rand.Rand, nBlocks, nCommitters, nReaders, readsPer int) {
	sc := statecache.NewStateCache()
	blocks := make([]string, nBlocks)
	writes := make([]string, nBlocks)
	for i := range blocks {
		blocks[i] = fmt.Sprintf("s%d", i+1)
		if i == 0 || r.Intn(3) == 0 {
			writes[i] = fmt.Sprintf("w%d", i+1)
		}
	}
	prevOf := func(i int) string {
		if i == 0 {
			return "genesis"
		}
		return blocks[i-1]
	}
	pre := 1 + r.Intn(3)
	mk := func(i int) *statecache.BlockCache {
		bc := statecache.NewBlockCache(sc, statecache.Block{Round: int64(i + 1), Hash: blocks[i], PrevHash: prevOf(i)})
		if writes[i] != "" {
			bc.Set("k", &MutVal{B: []byte(writes[i])})
		}
		return bc
	}
	for i := 0; i < pre; i++ {
		mk(i).Commit()
	}
	// blocks pre..n-1 are committed concurrently, mostly in chain order, some of them twice
	todo := make(chan int, 2*nBlocks)
	order := []int{}
	for i := pre; i < nBlocks; i++ {
		order = append(order, i)
		if r.Intn(3) == 0 {
			// a block executed twice: a second cache object of the same block, committed by whoever picks it up next
			order = append(order, i)
		}
	}
	for i := range order { // light shuffling so that gaps occur
		if r.Intn(4) == 0 && i+1 < len(order) {
			order[i], order[i+1] = order[i+1], order[i]
		}
	}
	for _, i := range order {
		todo <- i
	}
	close(todo)
	var mu sync.Mutex
	var results, after []any
	var committers []string
	var wg sync.WaitGroup
	seeds := make([]int64, nReaders)
	for i := range seeds {
		seeds[i] = r.Int63()
	}
	// every cache object that is about to be committed is also visible to lookups through it (a block's own cache and a
	// transaction cache on top of it are read while the block commits): these lookups are not judged (after the commit the
	// block's cache answers from its parent's context), they are there for the race detector
	var live sync.Map
	for c := 0; c < nCommitters; c++ {
		wg.Add(1)
		go func() {
			defer wg.Done()
			for i := range todo {
				bc := mk(i)
				live.Store(i, bc)
				bc.Commit()
				// once the commit has returned the block's writes are found at that block
				res, val := "miss", ""
				if v, ok := sc.Get("k", blocks[i]); ok {
					res, val = "hit", string(v.(*MutVal).B)
					v.(*MutVal).B[0] = 'Z' // received values are private copies
				}
				mu.Lock()
				committers = append(committers, blocks[i])
				after = append(after, []any{blocks[i], res, val})
				mu.Unlock()
			}
		}()
	}
	for rd := 0; rd < nReaders; rd++ {
		wg.Add(1)
		rr := rand.New(rand.NewSource(seeds[rd]))
		id := fmt.Sprintf("r%d", rd)
		go func() {
			defer wg.Done()
			var mine []any
			for j := 0; j < readsPer; j++ {
				if j%4 == 3 {
					if x, ok := live.Load(pre + rr.Intn(max(1, nBlocks-pre))); ok {
						bc := x.(*statecache.BlockCache)
						if v, ok := bc.Get("k"); ok {
							v.(*MutVal).B[0] = 'Z'
						}
						_, _ = statecache.NewTransactionCache(bc).Get("k")
					}
				}
				b := blocks[rr.Intn(nBlocks)]
				res, val := "miss", ""
				if v, ok := sc.Get("k", b); ok {
					res, val = "hit", string(v.(*MutVal).B)
					v.(*MutVal).B[0] = 'Z'
				}
				mine = append(mine, []any{id, b, res, val})
			}
			mu.Lock()
			results = append(results, mine...)
			mu.Unlock()
		}()
	}
	wg.Wait()
	var final []any
	for _, b := range blocks {
		res, val := "miss", ""
		if v, ok := sc.Get("k", b); ok {
			res, val = "hit", string(v.(*MutVal).B)
		}
		final = append(final, []any{b, res, val})
	}
	w.Emit(map[string]any{"tid": tid, "op": "stress", "blocks": blocks, "writes": writes, "pre": pre,
		"committers": committers, "results": results, "final": final, "after": after, "diverged": 0, "drained": 0, "nsched": 0})
}
