SPECIFICATION Spec
CONSTANTS
  Keys <- AKeys5
  Vals <- AVals
  Wts <- AWts
  Variant = "nibblezero"
INVARIANTS Refines TotalOK ResultOK
CHECK_DEADLOCK FALSE
