SPECIFICATION TraceSpec
CONSTANTS
  NKeys = 0
  Vals = {}
  Wt = {}
  Depth = 0
  GenMode = FALSE
INVARIANT Report
CHECK_DEADLOCK FALSE
