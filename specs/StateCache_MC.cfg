SPECIFICATION Spec
CONSTANTS
  Hashes <- SHashes
  PrevFn <- SPrev
  BCs <- SBCs
  BCHashFn <- SBCHash
  TXs <- MCTXs
  TXBlockFn <- MCTXBlock
  Keys <- MCKeys
  Vals <- MCVals
INVARIANTS TxnPrivate BlockPrivate ForkIndependent
PROPERTY CommitStable
VIEW View
CHECK_DEADLOCK FALSE
