------------------------------- MODULE NodeDB -------------------------------
(***************************************************************************)
(* The layered node stores of core/util/mpt_nodedb.go as coded:            *)
(*                                                                         *)
(*   plain stores   MemoryNodeDB ("m1", "m2", "m3") and the persistent     *)
(*                  store PNodeDB ("p"): a set of keys each                *)
(*   level stores   LevelNodeDB ("l1", "l2"): current + previous handle,   *)
(*                  PropagateDeletes, the DeletedNodes record              *)
(*                                                                         *)
(* This is the mechanism C03 names first ("read-through and write-to-      *)
(* current"): a child trie works on a level whose current store is its own *)
(* and whose previous handle is the parent's store.                        *)
(*                                                                         *)
(*   get     current first, then previous (if different)                   *)
(*   put     always into current                                           *)
(*   delete  from current if current (read through!) has the key;          *)
(*           otherwise from previous if PropagateDeletes, else only        *)
(*           recorded in DeletedNodes -- a key that lives below stays      *)
(*           VISIBLE after such a delete (no tombstone), as coded          *)
(*   iterate current, then previous unless current is the persistent store *)
(*           (a key present in both is visited twice)                      *)
(*   size    size(current) + size(previous) (double count), as coded       *)
(*   rebase  current := previous := the given handle                       *)
(*   merge   MergeState(from, to): every node iterate(from) visits is put  *)
(*           into to                                                       *)
(*                                                                         *)
(* Keys stand for content-addressed nodes, so a store is a set of keys.    *)
(***************************************************************************)
EXTENDS Naturals, Sequences, FiniteSets, TLC, Json

CONSTANTS Keys,       \* node keys
          Mutant,     \* "none" (as coded) | "propagate-always" (design mutant: deletes always reach the previous store)
          Topos,      \* set of topologies [c1, p1, c2, p2]: l1 = (c1 over p1), l2 = (c2 over p2)
          GenMode, Depth

Stores == {"m1", "m2", "m3", "p"}
Levels == {"l1", "l2"}
Handles == Stores \cup Levels

VARIABLES mem,     \* store -> set of keys
          cur,     \* level -> handle
          prev,    \* level -> handle
          prop,    \* level -> PropagateDeletes
          delrec,  \* level -> DeletedNodes record
          topo,    \* the initial topology (reporting only)
          hist, last

vars == <<mem, cur, prev, prop, delrec, topo, hist, last>>

---------------------------------------------------------------------------
(* semantics, as functions of the store contents m and the level structure *)
RECURSIVE Has(_, _, _)
Has(m, h, k) == IF h \in Stores THEN k \in m[h]
                ELSE Has(m, cur[h], k) \/ (prev[h] # cur[h] /\ Has(m, prev[h], k))

\* S = [mem, delrec]
RECURSIVE PutK(_, _, _)
PutK(S, h, k) == IF h \in Stores THEN [S EXCEPT !.mem[h] = @ \cup {k}] ELSE PutK(S, cur[h], k)

RECURSIVE DelK(_, _, _)
DelK(S, h, k) ==
  IF h \in Stores THEN [S EXCEPT !.mem[h] = @ \ {k}]
  ELSE IF Has(S.mem, cur[h], k) THEN DelK(S, cur[h], k)
  ELSE IF (prop[h] \/ Mutant = "propagate-always") /\ prev[h] # cur[h] THEN DelK(S, prev[h], k)
  ELSE [S EXCEPT !.delrec[h] = @ \cup {k}]

RECURSIVE Visits(_, _, _)
Visits(m, h, k) ==
  IF h \in Stores THEN (IF k \in m[h] THEN 1 ELSE 0)
  ELSE Visits(m, cur[h], k) + (IF prev[h] # cur[h] /\ cur[h] # "p" THEN Visits(m, prev[h], k) ELSE 0)

RECURSIVE SizeOf(_, _)
SizeOf(m, h) == IF h \in Stores THEN Cardinality(m[h])
                ELSE SizeOf(m, cur[h]) + (IF prev[h] # cur[h] THEN SizeOf(m, prev[h]) ELSE 0)

RECURSIVE PutAll(_, _, _, _), DelAll(_, _, _, _)
PutAll(S, h, ks, i) == IF i > Len(ks) THEN S ELSE PutAll(PutK(S, h, ks[i]), h, ks, i + 1)
DelAll(S, h, ks, i) == IF i > Len(ks) THEN S ELSE DelAll(DelK(S, h, ks[i]), h, ks, i + 1)

\* responses
GetResp(m, h, k) == Has(m, h, k)
MultiGetResp(m, h, ks) == [found |-> Cardinality({i \in 1..Len(ks) : Has(m, h, ks[i])}),   \* number of nodes returned
                           err |-> \E i \in 1..Len(ks) : ~Has(m, h, ks[i])]
IterResp(m, h) == {<<k, Visits(m, h, k)>> : k \in {x \in Keys : Visits(m, h, x) > 0}}
MergeKeys(m, from) == {k \in Keys : Visits(m, from, k) > 0}

\* the stores an operation on handle h may modify / read
RECURSIVE Writable(_), Readable(_)
Writable(h) == IF h \in Stores THEN {h}
               ELSE Writable(cur[h]) \cup (IF prop[h] /\ prev[h] # cur[h] THEN Writable(prev[h]) ELSE {})
Readable(h) == IF h \in Stores THEN {h} ELSE Readable(cur[h]) \cup Readable(prev[h])

---------------------------------------------------------------------------
S0 == [mem |-> mem, delrec |-> delrec]
SetToSeq(X) == CHOOSE q \in [1..Cardinality(X) -> X] : \A i, j \in 1..Cardinality(X) : i # j => q[i] # q[j]

Rec(op, h, ks, h2) == [op |-> op, h |-> h, ks |-> ks, h2 |-> h2]
Log(r) == /\ last' = r
          /\ IF GenMode
             THEN /\ Len(hist) < Depth /\ hist' = Append(hist, r)
                  /\ (IF Len(hist') < Depth THEN TRUE
                      ELSE PrintT(<<"VERIF_HIST", ToJson([topo |-> topo, prop1 |-> prop["l1"], prop2 |-> prop["l2"], ops |-> hist'])>>))
             ELSE hist' = hist

Init ==
  /\ mem = [s \in Stores |-> {}]
  /\ topo \in Topos
  /\ cur = [l \in Levels |-> IF l = "l1" THEN topo.c1 ELSE topo.c2]
  /\ prev = [l \in Levels |-> IF l = "l1" THEN topo.p1 ELSE topo.p2]
  /\ prop \in [Levels -> BOOLEAN]
  /\ delrec = [l \in Levels |-> {}]
  /\ hist = <<>> /\ last = Rec("init", "m1", <<>>, "")

Apply(S) == mem' = S.mem /\ delrec' = S.delrec
Structure == UNCHANGED <<cur, prev, prop, topo>>

Get(h, k)  == Log(Rec("get", h, <<k>>, "")) /\ UNCHANGED <<mem, delrec>> /\ Structure
Put(h, k)  == Log(Rec("put", h, <<k>>, "")) /\ Apply(PutK(S0, h, k)) /\ Structure
Del(h, k)  == Log(Rec("del", h, <<k>>, "")) /\ Apply(DelK(S0, h, k)) /\ Structure
MGet(h, ks) == Log(Rec("mget", h, ks, "")) /\ UNCHANGED <<mem, delrec>> /\ Structure
MPut(h, ks) == Log(Rec("mput", h, ks, "")) /\ Apply(PutAll(S0, h, ks, 1)) /\ Structure
MDel(h, ks) == Log(Rec("mdel", h, ks, "")) /\ Apply(DelAll(S0, h, ks, 1)) /\ Structure
Iter(h)    == Log(Rec("iter", h, <<>>, "")) /\ UNCHANGED <<mem, delrec>> /\ Structure
Size(h)    == Log(Rec("size", h, <<>>, "")) /\ UNCHANGED <<mem, delrec>> /\ Structure
\* only handles that cannot close a cycle: a plain store, or l1 below l2
Below(l) == Stores \cup (IF l = "l2" THEN {"l1"} ELSE {})
Rebase(l, h) == /\ h \in Below(l) /\ Log(Rec("rebase", l, <<>>, h))
                /\ cur' = [cur EXCEPT ![l] = h] /\ prev' = [prev EXCEPT ![l] = h]
                /\ UNCHANGED <<mem, delrec, prop, topo>>
SetPrev(l, h) == /\ h \in Below(l) /\ Log(Rec("setprev", l, <<>>, h))
                 /\ prev' = [prev EXCEPT ![l] = h] /\ UNCHANGED <<mem, delrec, cur, prop, topo>>
\* MergeState(from, to); to = "p" also flushes (no effect on the content)
Merge(from, to) == /\ from # to /\ Log(Rec("merge", to, <<>>, from))
                   /\ Apply(PutAll(S0, to, SetToSeq(MergeKeys(mem, from)), 1)) /\ Structure

KeySeqs == {<<k>> : k \in Keys} \cup {<<k1, k2>> : k1 \in Keys, k2 \in Keys}

Next ==
  \/ \E h \in Handles, k \in Keys : Get(h, k) \/ Put(h, k) \/ Del(h, k)
  \/ \E h \in Handles, ks \in KeySeqs : MGet(h, ks) \/ MPut(h, ks) \/ MDel(h, ks)
  \/ \E h \in Handles : Iter(h) \/ Size(h)
  \/ \E l \in Levels, h \in Handles : Rebase(l, h) \/ SetPrev(l, h)
  \/ \E f \in Handles, t \in Handles : Merge(f, t)

Spec == Init /\ [][Next]_vars

---------------------------------------------------------------------------
(* design properties *)
\* read-through: a level shows exactly the union of the stores below it
ReadThrough == \A l \in Levels, k \in Keys : Has(mem, l, k) <=> \E s \in Readable(l) : k \in mem[s]
\* what was put through a handle is visible through it
PutVisible == [][last'.op \in {"put", "mput"} => \A i \in 1..Len(last'.ks) : Has(mem', last'.h, last'.ks[i])]_vars
\* LAYER ISOLATION: an operation through handle h changes only the stores Writable(h) -- for a level without
\* PropagateDeletes that is the top store of its current chain: nothing below is ever touched.  (Writable is
\* evaluated in the state before the step; structure changes touch no store.)
Isolation ==
  [][\A s \in Stores : mem'[s] # mem[s] => (last'.op \in {"put", "del", "mput", "mdel", "merge"} /\ s \in Writable(last'.h))]_vars
\* a merge never changes its source (unless the source reads through the target)
MergeSourceKept ==
  [][last'.op = "merge" => \A s \in Readable(last'.h2) \ Writable(last'.h) : mem'[s] = mem[s]]_vars
\* after a merge the target shows everything the source showed
MergeComplete ==
  [][last'.op = "merge" => \A k \in Keys : Visits(mem, last'.h2, k) > 0 => Has(mem', last'.h, k)]_vars
\* after a rebase the level behaves exactly like the handle it was rebased onto (read-through with explicit structure)
RECURSIVE HasIn(_, _, _, _, _)
HasIn(m, c, p, h, k) == IF h \in Stores THEN k \in m[h]
                        ELSE HasIn(m, c, p, c[h], k) \/ (p[h] # c[h] /\ HasIn(m, c, p, p[h], k))
RebaseEq == [][last'.op = "rebase" => \A k \in Keys : HasIn(mem', cur', prev', last'.h, k) = HasIn(mem', cur', prev', last'.h2, k)]_vars

\* `last` only labels the step just taken: all properties that use it are action properties
View == <<mem, cur, prev, prop, delrec>>
=============================================================================
