---------------------------- MODULE StateCache_MC ----------------------------
(* Small scope for the exhaustive design check and for behaviour generation: *)
(* chain A <- B <- C, fork B <- D, block E behind a gap, a second cache      *)
(* object for hash B (re-execution), two transactions.                       *)
EXTENDS StateCache, Json

MCHashes == {"A", "B", "C", "D", "E"}
MCPrev == [h \in MCHashes |-> CASE h = "A" -> "G" [] h = "B" -> "A" [] h = "C" -> "B"
                                [] h = "D" -> "B" [] h = "E" -> "X"]
MCBCs == {"bA", "bB", "bC", "bD", "bE", "bB2"}
MCBCHash == [b \in MCBCs |-> CASE b = "bA" -> "A" [] b = "bB" -> "B" [] b = "bC" -> "C"
                                [] b = "bD" -> "D" [] b = "bE" -> "E" [] b = "bB2" -> "B"]
MCTXs == {"t1", "t2"}
MCTXBlock == [t \in MCTXs |-> IF t = "t1" THEN "bB" ELSE "bC"]
MCKeys == {"k"}
MCVals == {"a", "b"}

\* smaller scope used by the exhaustive configuration
SBCs == {"bA", "bB", "bC", "bD", "bB2"}
SBCHash == [b \in SBCs |-> MCBCHash[b]]
SHashes == {"A", "B", "C", "D"}
SPrev == [h \in SHashes |-> MCPrev[h]]

View == [S EXCEPT !.memo = EmptyMap]

=============================================================================
