SPECIFICATION SSpec
CONSTANTS
  Paths = {}
  Values = {}
  Contents <- SContentsBig
  GenMode = TRUE
INVARIANTS FrontierOK LookupOK RepairedOK
CHECK_DEADLOCK FALSE
