------------------------------- MODULE MPTAlg -------------------------------
(***************************************************************************)
(* Node-level transcription of the state trie's insert and delete          *)
(* (core/util/merkle_patricia_trie.go: insert, insertAtNode,               *)
(* insertAfterPathTraversal, delete, deleteAtNode,                         *)
(* deleteAfterPathTraversal, liftOnlyChild) on terms, as a REFINEMENT of   *)
(* the map specification MPT.tla:                                          *)
(*                                                                         *)
(*      trie  = Canon(content)    in every reachable state                 *)
(*      result class of every operation = the map specification's          *)
(*                                                                         *)
(* Hashing, stores and change collection are abstracted away (they are the *)
(* subject of MPTRounds / MPTPersist); what remains is exactly the case    *)
(* analysis that decides the SHAPE of the trie, i.e. C01 + C02 at design   *)
(* level for the algorithm as coded.                                       *)
(*                                                                         *)
(* Variant = "fixed"  the code as it stands in /repo                       *)
(*           "orig-insert-ext1"   before fix 9a1e55f                       *)
(*           "orig-delete-boundary" before fix b585470                     *)
(*           "orig-delete-value"  before fix 291a026                       *)
(* The three "orig" variants are design mutants: TLC refutes each.         *)
(***************************************************************************)
EXTENDS MPT

CONSTANT Variant

VARIABLES trie, lastres

avars == <<content, trie, lastres>>

LeafT(pre, path, val) == [t |-> "L", pre |-> pre, path |-> path, val |-> val]
ExtT(path, kid) == [t |-> "E", path |-> path, kid |-> kid]
FullT(val, kids) == [t |-> "F", val |-> val, kids |-> kids]
NoKids == [c \in {} |-> Nil]
KidPut(kids, ch, k) == [c \in (DOMAIN kids) \cup {ch} |-> IF c = ch THEN k ELSE kids[c]]
KidDel(kids, ch) == [c \in (DOMAIN kids) \ {ch} |-> kids[c]]
One(ch, k) == KidPut(NoKids, ch, k)

RECURSIVE LcpLen2(_, _, _)
LcpLen2(a, b, i) == IF i > Len(a) \/ i > Len(b) \/ a[i] # b[i] THEN i - 1 ELSE LcpLen2(a, b, i + 1)
Lcp(a, b) == Take(a, LcpLen2(a, b, 1))

---------------------------------------------------------------------------
(* insert *)
RECURSIVE Ins(_, _, _, _)

InsEnd(t, pre, v) ==     \* insertAfterPathTraversal
  CASE t.t = "F" -> [t EXCEPT !.val = v]
    [] t.t = "L" -> IF t.path = <<>> THEN LeafT(t.pre, t.path, v)
                    ELSE FullT(v, One(t.path[1], LeafT(Append(t.pre, t.path[1]), Drop(t.path, 1), t.val)))
    [] t.t = "E" -> LET below == IF Len(t.path) > 1 \/ Variant = "orig-insert-ext1"
                                 THEN ExtT(Drop(t.path, 1), t.kid) ELSE t.kid
                    IN  FullT(v, One(t.path[1], below))

InsAt(t, pre, p, v) ==   \* insertAtNode, p non-empty
  CASE t.t = "F" ->
         IF p[1] \in DOMAIN t.kids
         THEN [t EXCEPT !.kids = KidPut(t.kids, p[1], Ins(t.kids[p[1]], Append(pre, p[1]), Drop(p, 1), v))]
         ELSE [t EXCEPT !.kids = KidPut(t.kids, p[1], LeafT(Append(pre, p[1]), Drop(p, 1), v))]
    [] t.t = "L" ->
         IF t.path = <<>> THEN FullT(t.val, One(p[1], LeafT(Append(pre, p[1]), Drop(p, 1), v)))
         ELSE IF p = t.path THEN LeafT(pre, t.path, v)
         ELSE LET m == Lcp(p, t.path)
                  n == Len(m)
                  cnode ==
                    IF m = p
                    THEN FullT(v, One(t.path[n + 1], LeafT(pre \o Take(t.path, n + 1), Drop(t.path, n + 1), t.val)))
                    ELSE IF m = t.path
                    THEN FullT(t.val, One(p[n + 1], LeafT(pre \o Take(p, n + 1), Drop(p, n + 1), v)))
                    ELSE FullT(NoVal, KidPut(One(p[n + 1], LeafT(pre \o Take(p, n + 1), Drop(p, n + 1), v)),
                                             t.path[n + 1], LeafT(pre \o Take(t.path, n + 1), Drop(t.path, n + 1), t.val)))
              IN  IF n = 0 THEN cnode ELSE ExtT(m, cnode)
    [] t.t = "E" ->
         LET m == Lcp(p, t.path)
             n == Len(m)
         IN  IF m = t.path THEN ExtT(t.path, Ins(t.kid, pre \o m, Drop(p, n), v))
             ELSE LET rest == IF Len(t.path) = n + 1 THEN t.kid ELSE ExtT(Drop(t.path, n + 1), t.kid)
                      cnode == IF m = p THEN FullT(v, One(t.path[n + 1], rest))
                               ELSE FullT(NoVal, KidPut(One(p[n + 1], LeafT(pre \o Take(p, n + 1), Drop(p, n + 1), v)),
                                                        t.path[n + 1], rest))
                  IN  IF n = 0 THEN cnode ELSE ExtT(m, cnode)

Ins(t, pre, p, v) == IF p = <<>> THEN InsEnd(t, pre, v) ELSE InsAt(t, pre, p, v)

InsertRoot(t, p, v) == IF t = Nil THEN LeafT(<<>>, p, v) ELSE Ins(t, <<>>, p, v)

---------------------------------------------------------------------------
(* delete: returns [t |-> new subtree or Nil if removed, res |-> "ok" | "notpresent" | "panic"] *)
NotPresent(t) == [t |-> t, res |-> "notpresent"]
Panic(t) == [t |-> t, res |-> "panic"]
Ok(t) == [t |-> t, res |-> "ok"]

Lift(f, pre) ==   \* liftOnlyChild: f is a value-less full node with exactly one child
  LET ch == CHOOSE c \in DOMAIN f.kids : TRUE
      o == f.kids[ch]
  IN  CASE o.t = "F" -> ExtT(<<ch>>, o)
        [] o.t = "L" -> LeafT(pre, <<ch>> \o o.path, o.val)
        [] o.t = "E" -> ExtT(<<ch>> \o o.path, o.kid)

RECURSIVE DelT(_, _, _)

DelEnd(t, pre) ==     \* deleteAfterPathTraversal
  CASE t.t = "F" ->
         IF Variant = "orig-delete-boundary" THEN Ok([t EXCEPT !.val = NoVal])
         ELSE IF t.val = NoVal THEN NotPresent(t)
         ELSE LET f == [t EXCEPT !.val = NoVal] IN
              IF Cardinality(DOMAIN f.kids) = 1 /\ Variant # "orig-delete-value" THEN Ok(Lift(f, pre)) ELSE Ok(f)
    [] t.t = "L" -> IF t.path # <<>> /\ Variant # "orig-delete-boundary" THEN NotPresent(t) ELSE Ok(Nil)
    [] t.t = "E" -> IF Variant = "orig-delete-boundary" THEN Panic(t) ELSE NotPresent(t)

DelAt(t, pre, p) ==   \* deleteAtNode, p non-empty
  CASE t.t = "F" ->
         IF p[1] \notin DOMAIN t.kids THEN NotPresent(t)
         ELSE LET r == DelT(t.kids[p[1]], Append(pre, p[1]), Drop(p, 1)) IN
              IF r.res # "ok" THEN [t |-> t, res |-> r.res]
              ELSE IF r.t = Nil
                   THEN LET n == Cardinality(DOMAIN t.kids)
                            f == [t EXCEPT !.kids = KidDel(t.kids, p[1])]
                        IN  IF n = 1 THEN (IF t.val # NoVal THEN Ok(LeafT(pre, <<>>, t.val)) ELSE Ok(Nil))
                            ELSE IF n = 2 /\ t.val = NoVal THEN Ok(Lift(f, pre))
                            ELSE Ok(f)
                   ELSE Ok([t EXCEPT !.kids = KidPut(t.kids, p[1], r.t)])
    [] t.t = "L" -> IF p = t.path THEN Ok(Nil) ELSE NotPresent(t)
    [] t.t = "E" ->
         LET m == Lcp(p, t.path) IN
         IF m # t.path THEN NotPresent(t)
         ELSE LET r == DelT(t.kid, pre \o m, Drop(p, Len(m))) IN
              IF r.res # "ok" THEN [t |-> t, res |-> r.res]
              ELSE CASE r.t.t = "L" -> Ok(LeafT(pre, t.path \o r.t.path, r.t.val))
                     [] r.t.t = "F" -> Ok(ExtT(t.path, r.t))
                     [] r.t.t = "E" -> Ok(ExtT(t.path \o r.t.path, r.t.kid))
                     [] OTHER -> Panic(t)

DelT(t, pre, p) == IF p = <<>> THEN DelEnd(t, pre) ELSE DelAt(t, pre, p)

DeleteRoot(t, p) == IF t = Nil THEN NotPresent(Nil) ELSE DelT(t, <<>>, p)

---------------------------------------------------------------------------
AInit == content = EmptyContent /\ trie = Nil /\ lastres = <<"ok", "ok">>

AInsert(p, v) ==
  /\ content' = InsertResp(content, p, v).c
  /\ trie' = InsertRoot(trie, p, v)
  /\ lastres' = <<"ok", "ok">>

ADelete(p) ==
  LET r == DeleteRoot(trie, p) IN
  /\ content' = DeleteResp(content, p).c
  /\ trie' = (IF r.res = "ok" THEN r.t ELSE trie)
  /\ lastres' = <<r.res, DeleteResp(content, p).res>>

ANext == \E p \in Paths : (\E v \in Values : AInsert(p, v)) \/ ADelete(p)
ASpec == AInit /\ [][ANext]_avars

\* refinement: the algorithm keeps the canonical trie of the content ...
Refines == trie = Canon(content)
\* ... and every delete reports what the map specification requires (never a panic)
ResultOK == lastres[1] = lastres[2]
=============================================================================
