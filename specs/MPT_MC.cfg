SPECIFICATION Spec
CONSTANTS
  Paths <- MCPaths
  Values <- MCValues
INVARIANTS TypeOK CanonRoundTrip CanonWalk CanonWF
CHECK_DEADLOCK FALSE
