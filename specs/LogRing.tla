------------------------------- MODULE LogRing -------------------------------
(***************************************************************************)
(* In-memory log buffer (core/logging/inmemory_logger.go), C20.            *)
(*                                                                         *)
(* Entries are numbered 1, 2, 3, ... in the order they are written, through*)
(* ANY logger: the root logger or a logger derived from it (or from another*)
(* derived logger) with extra fields.  The buffer keeps the most recent    *)
(* Cap entries; a snapshot lists them newest first:                        *)
(*     Snapshot == << total, total-1, ..., max(1, total-Cap+1) >>          *)
(* Which logger wrote an entry is irrelevant - that is the property.       *)
(*                                                                         *)
(* Writes are modelled as runs of Sizes entries so that totals below, at   *)
(* and far above the real capacity (1024) are reached in a few steps.      *)
(* With GenMode the module emits every behaviour of Depth steps.           *)
(***************************************************************************)
EXTENDS Naturals, Sequences, FiniteSets, TLC, Json

CONSTANTS Cap, Sizes, MaxLoggers, Depth, GenMode

VARIABLES total, nlog, hist
lvars == <<total, nlog, hist>>

Min(a, b) == IF a < b THEN a ELSE b
SnapshotC(t, c) == [i \in 1..Min(t, c) |-> t + 1 - i]
Snapshot(t) == SnapshotC(t, Cap)

Init == total = 0 /\ nlog = 1 /\ hist = <<>>

Log(r) == IF GenMode
          THEN /\ Len(hist) < Depth /\ hist' = Append(hist, r)
               /\ (IF Len(hist') < Depth THEN TRUE
                   ELSE PrintT(<<"VERIF_HIST", ToJson([ops |-> Append(hist', [op |-> "snapshot", lg |-> 0, n |-> 0])])>>))
          ELSE hist' = hist /\ total < 5 * Cap

Write(lg, n) == /\ lg < nlog /\ total' = total + n /\ nlog' = nlog /\ Log([op |-> "write", lg |-> lg, n |-> n])
Derive(lg)   == /\ lg < nlog /\ nlog < MaxLoggers /\ nlog' = nlog + 1 /\ total' = total /\ Log([op |-> "derive", lg |-> lg, n |-> 0])
Snap         == /\ UNCHANGED <<total, nlog>> /\ Log([op |-> "snapshot", lg |-> 0, n |-> 0])

Next == (\E lg \in 0..(MaxLoggers - 1) : (\E n \in Sizes : Write(lg, n)) \/ Derive(lg)) \/ Snap
Spec == Init /\ [][Next]_lvars

\* the snapshot has min(total, Cap) entries, strictly decreasing by one from the newest
SnapshotShape ==
  LET s == Snapshot(total) IN
  /\ Len(s) = Min(total, Cap)
  /\ (Len(s) > 0 => s[1] = total)
  /\ \A i \in 1..(Len(s) - 1) : s[i + 1] = s[i] - 1
View == <<total, nlog>>
=============================================================================
