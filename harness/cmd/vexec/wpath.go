package main

import (
	"bufio"
	"bytes"
	"encoding/json"
	"math/rand"
	"os"

	"verifharness/exec"
	"verifharness/tr"
)

func init() { components["wpath"] = runWPath }

func runWPath(args []string) (map[string]any, error) {
	c := newCommon("wpath")
	c.fs.Parse(args)
	w, err := tr.New(*c.out, *c.shards)
	if err != nil {
		return nil, err
	}
	in := tr.NewInterner()
	st := &exec.PathStats{Distinct: map[string]bool{}}
	tid, nTLC := 0, 0
	if *c.hist != "" {
		f, err := os.Open(*c.hist)
		if err != nil {
			return nil, err
		}
		sc := bufio.NewScanner(f)
		sc.Buffer(make([]byte, 1<<20), 1<<26)
		for sc.Scan() {
			line := bytes.TrimSpace(sc.Bytes())
			if len(line) == 0 {
				continue
			}
			// TLC plan: {"init":{"<k>":"<v>",...},"level":n,"req":[...],"big":bool,"ops":[...]}
			var tp struct {
				Uni   string     `json:"uni"`
				Sub   []int      `json:"sub"`
				Scale uint64     `json:"scale"`
				Init  [][2]any   `json:"init"`
				Level int        `json:"level"`
				Req   []int      `json:"req"`
				Big   bool       `json:"big"`
				Ops   []exec.WOp `json:"ops"`
			}
			if err := json.Unmarshal(line, &tp); err != nil {
				return nil, err
			}
			p := exec.PathPlan{Level: tp.Level, Req: tp.Req, Ops: tp.Ops, Scale: tp.Scale}
			if tp.Uni != "shape" {
				p.Uni, p.Sub = tp.Uni, tp.Sub // replays carry their universe
			}
			p.Init = tp.Init
			if tp.Big {
				for i := 1; i <= 11; i++ {
					p.Req = append(p.Req, 100+i)
				}
			}
			nTLC++
			if tp.Uni == "shape" {
				// structural scope: the same plan over both placements of the 4-nibble window
				for _, u := range []string{"head", "tail"} {
					tid++
					p.Uni = u
					exec.RunPath(w, in, st, tid, p)
				}
				continue
			}
			tid++
			exec.RunPath(w, in, st, tid, p)
		}
		f.Close()
	}
	r := rand.New(rand.NewSource(*c.seed))
	for i := 0; i < *c.n; i++ {
		tid++
		exec.RunPath(w, in, st, tid, exec.GenPathPlan(r))
	}
	if err := w.Close(); err != nil {
		return nil, err
	}
	return map[string]any{"traces": st.Traces, "events": st.Events, "tlc_histories": nTLC, "go_histories": *c.n, "panics": st.Panics,
		"import_errors": st.ImportErrors, "distinct_signatures": len(st.Distinct), "samples": w.Samples}, nil
}
