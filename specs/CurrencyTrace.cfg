SPECIFICATION TraceSpec
CONSTANTS
  W = 1
  Idiom = "none"
INVARIANT Report
CHECK_DEADLOCK FALSE
