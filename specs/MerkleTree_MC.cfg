SPECIFICATION Spec
CONSTANT N = 40
INVARIANTS PathProves PathExclusive LayoutOK
CHECK_DEADLOCK FALSE
