SPECIFICATION PSpec
CONSTANTS
  NKeys = 0
  ReW = {}
  Vals = {}
  Wt = {}
  Depth = 0
  GenMode = TRUE
  PKeys = {0, 1, 3, 5}
  AKeys = {100}
  MaxOps = 3
  Uni = "w"
  MaxInit = 4
  MaxReq = 5
  Bigs = {TRUE, FALSE}
  InMemory = TRUE
  Levels = {0, 1}
INVARIANTS EmitAll OnlyRequested
CHECK_DEADLOCK FALSE
