"""Shared machinery of /verif/bin/check: building the Go executor against
/repo's current tree, running TLC (design checks, behaviour generation, trace
validation), parsing TLC output, verdicts, known findings, evidence."""
import json, os, re, shutil, subprocess, sys, time, glob, hashlib
from concurrent.futures import ThreadPoolExecutor

VERIF = os.path.dirname(os.path.dirname(os.path.abspath(__file__)))
SPECS = os.path.join(VERIF, "specs")
HARNESS = os.path.join(VERIF, "harness")
WORK = os.path.join(VERIF, "work")
EVID = os.path.join(VERIF, "evidence")
REPLAYS = os.path.join(VERIF, "replays")
JAR = "/opt/veriftools/tla/tla2tools.jar:/opt/veriftools/tla/CommunityModules-deps.jar"
NCPU = os.cpu_count() or 4

GOENV = dict(os.environ, GOFLAGS="-mod=mod", GOPROXY="off", GOSUMDB="off", GOTOOLCHAIN="local",
             CGO_ENABLED="1")


class Infra(Exception):
    """Infrastructure failure: never a verdict about the code."""


def log(*a):
    print(*a, flush=True)


# ----------------------------------------------------------------------------- build

REPO_LOCK = "/var/lock/verif-repo.lock"


class repo_lock:
    """Advisory lock on /repo's working tree: builds hold it shared, bin/seedtest (which patches /repo for the duration of
    its checks) holds it exclusively and tells the checks it runs so (VERIF_REPO_LOCK_HELD).  Best effort: no lock file, no lock."""

    def __init__(self, exclusive=False):
        self.exclusive, self.f = exclusive, None

    def __enter__(self):
        if os.environ.get("VERIF_REPO_LOCK_HELD"):
            return self
        try:
            import fcntl
            self.f = open(REPO_LOCK, "a")
            fcntl.flock(self.f, fcntl.LOCK_EX if self.exclusive else fcntl.LOCK_SH)
        except OSError:
            self.f = None
        return self

    def __exit__(self, *a):
        if self.f:
            self.f.close()


def build_vexec(race=False):
    """(Re)build the executor from /repo's current working tree with hooks on."""
    with repo_lock():
        return _build_vexec(race)


def _build_vexec(race):
    os.makedirs(os.path.join(WORK, "bin"), exist_ok=True)
    # keep go.sum in step with the repository's
    try:
        shutil.copyfile("/repo/go.sum", os.path.join(HARNESS, "go.sum"))
    except OSError:
        pass
    out = os.path.join(WORK, "bin", "vexec_race" if race else "vexec")
    cover = ["-cover", "-coverpkg=all"] if os.environ.get("VERIF_COVER") else []   # with GOCOVERDIR set: statement coverage of /repo by the executors
    cmd = ["go", "build", "-tags", "verif"] + cover + (["-race"] if race else []) + ["-o", out, "./cmd/vexec"]
    p = subprocess.run(cmd, cwd=HARNESS, env=GOENV, capture_output=True, text=True)
    if p.returncode != 0:
        raise Infra("go build failed:\n" + p.stdout + p.stderr)
    return out


# the Go runtime's own verdicts on unsynchronised access, fatal for the process: evidence of a data race in the code under
# test, not an infrastructure problem
RUNTIME_RACE = ("fatal error: concurrent map", "WARNING: DATA RACE")


def vexec(binary, args, timeout=3600, env=None, crash_is_race=False):
    e = dict(GOENV)
    if env:
        e.update(env)
    p = subprocess.run([binary] + [str(a) for a in args], capture_output=True, text=True, timeout=timeout, env=e)
    if p.returncode != 0 and crash_is_race and any(x in (p.stderr or "") for x in RUNTIME_RACE):
        i = min([p.stderr.find(x) for x in RUNTIME_RACE if x in p.stderr])
        return {"_stderr": p.stderr[max(0, i - 200):i + 6000], "_crashed": True, "samples": []}
    if p.returncode != 0:
        raise Infra("vexec %s failed (%d): %s" % (args[0], p.returncode, (p.stderr or p.stdout)[-3000:]))
    lines = [x for x in p.stdout.strip().splitlines() if x.startswith("{")]
    if not lines:
        raise Infra("vexec produced no summary: " + p.stdout[-500:] + p.stderr[-2000:])
    s = json.loads(lines[-1])
    s["_stderr"] = p.stderr
    return s


# ----------------------------------------------------------------------------- TLA value parser

class _P:
    def __init__(self, s):
        self.s, self.i = s, 0

    def ws(self):
        while self.i < len(self.s) and self.s[self.i] in " \t\r\n":
            self.i += 1

    def peek(self, t):
        self.ws()
        return self.s.startswith(t, self.i)

    def eat(self, t):
        self.ws()
        if not self.s.startswith(t, self.i):
            raise ValueError("expected %r at %d: %r" % (t, self.i, self.s[self.i:self.i + 40]))
        self.i += len(t)

    def val(self):
        self.ws()
        c = self.s[self.i]
        if self.peek("<<"):
            self.eat("<<")
            out = []
            while not self.peek(">>"):
                out.append(self.val())
                if self.peek(","):
                    self.eat(",")
            self.eat(">>")
            return out
        if c == "{":
            self.eat("{")
            out = []
            while not self.peek("}"):
                out.append(self.val())
                if self.peek(","):
                    self.eat(",")
            self.eat("}")
            return {"set": out}
        if c == "[":
            self.eat("[")
            d = {}
            while not self.peek("]"):
                self.ws()
                m = re.compile(r"[A-Za-z0-9_]+").match(self.s, self.i)
                k = m.group(0)
                self.i = m.end()
                self.eat("|->")
                d[k] = self.val()
                if self.peek(","):
                    self.eat(",")
            self.eat("]")
            return d
        if c == "(":
            # function printed as (k1 :> v1 @@ k2 :> v2)
            self.eat("(")
            d = []
            while not self.peek(")"):
                k = self.val()
                self.eat(":>")
                v = self.val()
                d.append([k, v])
                if self.peek("@@"):
                    self.eat("@@")
            self.eat(")")
            return {"fun": d}
        if c == '"':
            j = self.i + 1
            out = []
            while self.s[j] != '"':
                if self.s[j] == "\\":
                    j += 1
                out.append(self.s[j])
                j += 1
            self.i = j + 1
            return "".join(out)
        m = re.compile(r"-?[0-9]+").match(self.s, self.i)
        if m:
            self.i = m.end()
            return int(m.group(0))
        m = re.compile(r"[A-Za-z_][A-Za-z0-9_]*").match(self.s, self.i)
        if m:
            self.i = m.end()
            w = m.group(0)
            return True if w == "TRUE" else False if w == "FALSE" else w
        raise ValueError("cannot parse at %d: %r" % (self.i, self.s[self.i:self.i + 40]))


def parse_tla(s):
    return _P(s).val()


def extract_results(stdout, tag="VERIF_RESULT"):
    """All values printed by PrintT(<<tag, ...>>) in a TLC run."""
    out = []
    key = re.compile(r'<<\s*"%s"' % re.escape(tag))
    pos = 0
    while True:
        m = key.search(stdout, pos)
        if not m:
            break
        i = m.start()
        p = _P(stdout)
        p.i = i
        try:
            out.append(p.val())
        except Exception as ex:  # truncated output
            raise Infra("cannot parse TLC result: %s" % ex)
        pos = p.i
    return out


# ----------------------------------------------------------------------------- TLC

_SUMMARY = re.compile(r"([0-9,]+) states generated, ([0-9,]+) distinct states found")


def tlc(module, cfg, cwd, env=None, workers=1, timeout=600, xmx="3g", extra=None, deque=False):
    """Run TLC on module.tla with cfg in cwd.  Returns dict(stdout, generated, distinct, rc)."""
    e = dict(os.environ)
    if env:
        e.update({k: str(v) for k, v in env.items()})
    md = os.path.join(cwd, "md_%s_%d" % (module, int(time.time() * 1000) % 100000000))
    # TLC unpacks its module jar into java.io.tmpdir (tlc-<n>) and never removes it: keep that inside the metadir
    os.makedirs(md, exist_ok=True)
    jopts = ["-XX:+UseParallelGC", "-Xmx" + xmx, "-Xss256m", "-Djava.io.tmpdir=" + md]
    if deque:
        jopts.append("-Dtlc2.tool.queue.IStateQueue=StateDeque")
    cmd = ["timeout", str(timeout), "java"] + jopts + ["-cp", JAR, "tlc2.TLC", "-workers", str(workers),
           "-metadir", md, "-config", cfg] + (extra or []) + [module + ".tla"]
    t0 = time.time()
    p = subprocess.run(cmd, cwd=cwd, env=e, capture_output=True, text=True)
    shutil.rmtree(md, ignore_errors=True)
    out = p.stdout + p.stderr
    gen = dist = 0
    for m in _SUMMARY.finditer(out):
        gen = int(m.group(1).replace(",", ""))
        dist = int(m.group(2).replace(",", ""))
    return dict(stdout=out, generated=gen, distinct=dist, rc=p.returncode, wall=time.time() - t0,
                timeout=(p.returncode == 124))


def scratch(name):
    """Fresh scratch directory under /verif/work with a copy of the specs."""
    d = os.path.join(WORK, name)
    shutil.rmtree(d, ignore_errors=True)
    os.makedirs(d)
    for f in glob.glob(os.path.join(SPECS, "*.tla")) + glob.glob(os.path.join(SPECS, "*.cfg")):
        shutil.copy(f, d)
    return d


def design_check(d, module, cfg, workers=NCPU, timeout=900, xmx="12g", expect_violation=None, extra=None):
    """Exhaustive TLC run of a design configuration.  Returns (states, transitions)."""
    r = tlc(module, cfg, d, workers=workers, timeout=timeout, xmx=xmx, extra=extra)
    out = r["stdout"]
    if expect_violation is not None:
        if ("Invariant %s is violated" % expect_violation) in out or \
           ("property %s was violated" % expect_violation) in out.lower() or \
           ("Action property %s is violated" % expect_violation) in out:
            return r["distinct"], r["generated"]
        raise Infra("design mutant %s/%s did not violate %s:\n%s" % (module, cfg, expect_violation, out[-1500:]))
    if "Model checking completed. No error has been found." not in out:
        if "is violated" in out or "was violated" in out:
            raise Infra("DESIGN-LEVEL counterexample in %s/%s (model drift or design defect; not a verdict on the code):\n%s"
                        % (module, cfg, out[-4000:]))
        raise Infra("TLC design run %s/%s failed (rc=%s):\n%s" % (module, cfg, r["rc"], out[-3000:]))
    return r["distinct"], r["generated"]


def gen_histories(d, module, cfg, outfile, tag="VERIF_HIST", timeout=900, workers=NCPU, extra=None, xmx="12g"):
    """Run a generator configuration whose invariant prints ToJson(hist) for maximal
    histories; collects them (one JSON value per line) into outfile."""
    r = tlc(module, cfg, d, workers=workers, timeout=timeout, xmx=xmx, extra=extra)
    out = r["stdout"]
    if r["timeout"]:
        raise Infra("generator %s/%s timed out" % (module, cfg))
    if "Error:" in out and "VERIF_HIST" not in out:
        raise Infra("generator %s/%s failed:\n%s" % (module, cfg, out[-3000:]))
    n = 0
    with open(outfile, "w") as f:
        for v in extract_results(out, tag):
            # v = ["VERIF_HIST", "<json string>"]
            f.write(v[1] + "\n")
            n += 1
    if n == 0:
        raise Infra("generator %s/%s produced no histories:\n%s" % (module, cfg, out[-2000:]))
    return n, r["distinct"], r["generated"]


def validate_traces(d, module, cfg, shard_files, timeout=1800, env_extra=None, deque=False, xmx="3g"):
    """Trace validation: one TLC process per shard, in parallel.
    Returns list of dict(shard, events, traces, nbad, bad, distinct, generated)."""
    files = [f for f in shard_files if os.path.getsize(f) > 0]

    def one(f):
        sd = os.path.join(d, "v_" + os.path.basename(f).replace(".", "_"))
        os.makedirs(sd, exist_ok=True)
        for x in glob.glob(os.path.join(d, "*.tla")) + glob.glob(os.path.join(d, "*.cfg")):
            shutil.copy(x, sd)
        env = {"TRACE": f}
        if env_extra:
            env.update(env_extra)
        r = tlc(module, cfg, sd, env=env, workers=1, timeout=timeout, deque=deque, xmx=xmx)
        shutil.rmtree(sd, ignore_errors=True)
        res = extract_results(r["stdout"])
        if r["timeout"]:
            raise Infra("trace validation timed out on %s" % f)
        if not res:
            raise Infra("trace validation of %s produced no verdict (TLC evaluation error?):\n%s"
                        % (f, r["stdout"][-3000:]))
        v = res[-1]
        return dict(shard=f, events=v[1], traces=v[2], nbad=v[3], bad=v[4]["set"] if isinstance(v[4], dict) else v[4],
                    distinct=r["distinct"], generated=r["generated"])

    with ThreadPoolExecutor(max_workers=max(1, NCPU - 2)) as ex:
        return list(ex.map(one, files))


def read_trace(shard, tid):
    """All events of trace tid from a shard file."""
    out = []
    with open(shard) as f:
        for line in f:
            if ('"tid":%d,' % tid) in line or ('"tid":%d}' % tid) in line:
                ev = json.loads(line)
                if ev.get("tid") == tid:
                    out.append(ev)
    return out


def line_of(shard, idx):
    with open(shard) as f:
        for i, line in enumerate(f, 1):
            if i == idx:
                return json.loads(line)
    return None


# ----------------------------------------------------------------------------- known findings / verdicts

def load_known():
    p = os.path.join(VERIF, "known_findings.json")
    if not os.path.exists(p):
        return {"findings": [], "fixed": []}
    return json.load(open(p))


def save_replay(prop, n, payload):
    os.makedirs(REPLAYS, exist_ok=True)
    p = os.path.join(REPLAYS, "%s-%d.json" % (prop, n))
    with open(p, "w") as f:
        json.dump(payload, f, indent=1)
    return p


def write_evidence(prop, tier, seed, level, coverage, assumptions, wall, violations):
    os.makedirs(EVID, exist_ok=True)
    ev = dict(property_id=prop, tier=tier, seed=int(seed), level=level, coverage=coverage,
              assumptions=assumptions, wall_s=round(wall, 2), violations=int(violations))
    with open(os.path.join(EVID, prop + ".json"), "w") as f:
        json.dump(ev, f, indent=1)
    return ev
