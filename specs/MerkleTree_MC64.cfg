SPECIFICATION Spec
CONSTANT N = 64
INVARIANTS PathProves PathExclusive LayoutOK
CHECK_DEADLOCK FALSE
