package exec

import (
	"bytes"
	"fmt"
	"math/rand"
	"strings"

	"verifharness/tr"

	"github.com/0chain/common/core/statecache"
	"github.com/0chain/common/core/util"
)

// MutVal is a mutable cache value owned by the harness.
type MutVal struct{ B []byte }

func (m *MutVal) Clone() statecache.Value { return &MutVal{B: append([]byte(nil), m.B...)} }
func (m *MutVal) CopyFrom(v interface{}) bool {
	o, ok := v.(*MutVal)
	if !ok {
		return false
	}
	m.B = append([]byte(nil), o.B...)
	return true
}

// SCOp is one operation of a state-cache history.
type SCOp struct {
	Op string `json:"op"`
	B  string `json:"b,omitempty"` // block-cache object
	T  string `json:"t,omitempty"` // txn-cache object
	H  string `json:"h,omitempty"` // block hash
	P  string `json:"p,omitempty"` // prev hash
	K  string `json:"k,omitempty"`
	V  string `json:"v,omitempty"`
}

// SCHist is a history with the value representation to use.
type SCHist struct {
	ValType string `json:"valtype"` // mut | leaf | string
	Small   bool   `json:"small"`   // within capacity limits: MustHit asserted
	Ops     []SCOp `json:"ops"`
}

type scEnv struct {
	sc      *statecache.StateCache
	bcs     map[string]*statecache.BlockCache
	txs     map[string]*statecache.TransactionCache
	valType string
	given   []statecache.Value // every value handed in (mutated right after)
}

func (e *scEnv) mk(tok string) statecache.Value {
	switch e.valType {
	case "leaf":
		return util.NewLeafNode(util.Path("ab"), util.Path("cd"), 1, &util.SecureSerializableValue{Buffer: []byte(tok)})
	case "full":
		fn := util.NewFullNode(&util.SecureSerializableValue{Buffer: []byte(tok)})
		fn.PutChild('3', []byte("0123456789abcdef0123456789abcdef"))
		return fn
	case "fullnv":
		// a branch WITHOUT a value: the token lives in a child key
		fn := util.NewFullNode(nil)
		fn.PutChild('3', []byte("0123456789abcdef0123456789abcdef"))
		fn.PutChild('5', padTok(tok))
		return fn
	case "ext":
		return util.NewExtensionNode(util.Path("ab"+tok), util.Key(padTok(tok)))
	case "string":
		return statecache.String(tok)
	default:
		return &MutVal{B: []byte(tok)}
	}
}

// padTok spreads a token over a 32-byte key.
func padTok(tok string) []byte {
	b := bytes.Repeat([]byte{'.'}, 32)
	copy(b, tok)
	return b
}

func unpadTok(b []byte) string { return strings.TrimRight(string(b), ".") }

// scribble overwrites a byte slice IN PLACE (whoever shares its backing array sees it).
func scribble(b []byte) {
	for i := range b {
		b[i] = 'Z'
	}
}

func (e *scEnv) mutate(v statecache.Value) {
	switch x := v.(type) {
	case *MutVal:
		for i := range x.B {
			x.B[i] = 'Z'
		}
	case *util.LeafNode:
		if vn := x.Value; vn != nil {
			if ssv, ok := vn.Value.(*util.SecureSerializableValue); ok {
				for i := range ssv.Buffer {
					ssv.Buffer[i] = 'Z'
				}
			}
		}
		x.SetValue(&util.SecureSerializableValue{Buffer: []byte("MUT")})
		scribble(x.Path)
		scribble(x.Prefix)
	case *util.FullNode:
		hadValue := x.HasValue()
		if vn := x.Value; vn != nil {
			if ssv, ok := vn.Value.(*util.SecureSerializableValue); ok {
				scribble(ssv.Buffer)
			}
		}
		if hadValue {
			x.SetValue(&util.SecureSerializableValue{Buffer: []byte("MUT")})
		}
		// first in place (a copy that shares the child keys' bytes is hit), then replaced
		for i := range x.Children {
			scribble(x.Children[i])
		}
		x.Children[3] = []byte("ffffffffffffffffffffffffffffffff")
	case *util.ExtensionNode:
		scribble(x.Path)
		scribble(x.NodeKey)
		x.Path = util.Path("ff")
	}
}

func (e *scEnv) tok(v statecache.Value) string {
	switch x := v.(type) {
	case *MutVal:
		return string(x.B)
	case *util.LeafNode:
		if string(x.Path) != "cd" || string(x.Prefix) != "ab" {
			return "CORRUPT-PATH"
		}
		return string(x.GetValueBytes())
	case *util.FullNode:
		if string(x.Children[3]) != "0123456789abcdef0123456789abcdef" {
			return "CORRUPT-CHILD"
		}
		if !x.HasValue() {
			return unpadTok(x.Children[5])
		}
		return string(x.GetValueBytes())
	case *util.ExtensionNode:
		if len(x.Path) < 2 || string(x.Path[:2]) != "ab" || string(x.Path[2:]) != unpadTok(x.NodeKey) {
			return "CORRUPT-EXT"
		}
		return unpadTok(x.NodeKey)
	case statecache.String:
		return string(x)
	case nil:
		return "NIL"
	default:
		return fmt.Sprintf("UNKNOWN-%T", v)
	}
}

// SCStats collects coverage of a statecache run.
type SCStats struct {
	Traces, Events, Hits, Misses, Panics int
	Distinct                             map[string]bool
}

// RunSCHistory executes one history against a fresh StateCache.
func RunSCHistory(w *tr.Writer, st *SCStats, tid int, h SCHist) {
	w.NextTrace()
	st.Traces++
	e := &scEnv{sc: statecache.NewStateCache(), bcs: map[string]*statecache.BlockCache{}, txs: map[string]*statecache.TransactionCache{}, valType: h.ValType}
	w.Emit(map[string]any{"tid": tid, "op": "reset", "valtype": h.ValType, "small": h.Small, "cap": 200})
	st.Events++
	sig := ""
	for _, op := range h.Ops {
		ev := map[string]any{"tid": tid, "op": op.Op, "b": op.B, "t": op.T, "h": op.H, "p": op.P, "k": op.K, "v": op.V}
		get := func(f func() (statecache.Value, bool)) {
			res := Guard(func() string {
				v, ok := f()
				if !ok {
					ev["val"] = ""
					return "miss"
				}
				ev["val"] = e.tok(v)
				e.mutate(v)
				return "hit"
			})
			if res == "panic" {
				ev["val"] = ""
				st.Panics++
			}
			if res == "hit" {
				st.Hits++
			} else {
				st.Misses++
			}
			ev["res"] = res
		}
		do := func(f func()) {
			ev["res"] = Guard(func() string { f(); return "ok" })
			if ev["res"] == "panic" {
				st.Panics++
			}
		}
		switch op.Op {
		case "newblock":
			do(func() {
				e.bcs[op.B] = statecache.NewBlockCache(e.sc, statecache.Block{Round: int64(len(e.bcs) + 1), Hash: op.H, PrevHash: op.P})
			})
		case "newtxn":
			do(func() { e.txs[op.T] = statecache.NewTransactionCache(e.bcs[op.B]) })
		case "tset":
			do(func() { v := e.mk(op.V); e.txs[op.T].Set(op.K, v); e.mutate(v) })
		case "tremove":
			do(func() { e.txs[op.T].Remove(op.K) })
		case "tcommit":
			do(func() { e.txs[op.T].Commit() })
		case "tget":
			get(func() (statecache.Value, bool) { return e.txs[op.T].Get(op.K) })
		case "bset":
			do(func() { v := e.mk(op.V); e.bcs[op.B].Set(op.K, v); e.mutate(v) })
		case "bcommit":
			do(func() { e.bcs[op.B].Commit() })
		case "bget":
			get(func() (statecache.Value, bool) { return e.bcs[op.B].Get(op.K) })
		case "sethash":
			do(func() { e.bcs[op.B].SetBlockHash(op.H) })
		case "qget":
			get(func() (statecache.Value, bool) { return statecache.NewQueryBlockCache(e.sc, op.H).Get(op.K) })
		case "sget":
			get(func() (statecache.Value, bool) { return e.sc.Get(op.K, op.H) })
		case "sremove":
			do(func() { e.sc.Remove(op.K) })
		default:
			panic("unknown statecache op " + op.Op)
		}
		w.Emit(ev)
		st.Events++
		sig += op.Op[:2] + fmt.Sprint(ev["res"])[:1]
	}
	st.Distinct[sig] = true
}

// GenSCHistory draws a random block-tree history.
func GenSCHistory(r *rand.Rand, long bool) SCHist {
	h := SCHist{Small: !long}
	h.ValType = []string{"mut", "leaf", "mut", "full", "string", "fullnv", "ext"}[r.Intn(7)]
	keys := []string{"k1", "k2", "k3"}[:1+r.Intn(3)]
	vals := []string{"a", "b", "c", "d"}
	type blk struct{ obj, hash, prev string }
	var blocks []blk
	var open []string // open block objects
	txOf := map[string]string{}
	var txs []string
	committed := map[string]bool{}
	nb := 0
	late := map[string]string{} // block object -> real hash still to be set
	newBlock := func() {
		nb++
		hash := fmt.Sprintf("h%d", nb)
		prev := "genesis"
		if len(blocks) > 0 {
			switch x := r.Intn(100); {
			case x < 70: // extend the newest
				prev = blocks[len(blocks)-1].hash
			case x < 92: // fork from a random one
				prev = blocks[r.Intn(len(blocks))].hash
			default: // gap: unknown parent
				prev = fmt.Sprintf("gap%d", nb)
			}
		}
		obj := fmt.Sprintf("b%d", nb)
		// occasionally a second object for an existing hash (re-execution of the same block)
		if len(blocks) > 0 && r.Intn(15) == 0 {
			o := blocks[r.Intn(len(blocks))]
			hash, prev = o.hash, o.prev
		}
		blocks = append(blocks, blk{obj, hash, prev})
		open = append(open, obj)
		// a generator's block does not know its hash while it is being built: it is created under a placeholder and named
		// (BlockCache.SetBlockHash) just before it commits
		if !long && r.Intn(4) == 0 {
			late[obj] = hash
			h.Ops = append(h.Ops, SCOp{Op: "newblock", B: obj, H: "tmp-" + obj, P: prev})
			return
		}
		h.Ops = append(h.Ops, SCOp{Op: "newblock", B: obj, H: hash, P: prev})
	}
	nops := 8 + r.Intn(40)
	if long {
		nops = 300 + r.Intn(500)
	}
	newBlock()
	for i := 0; i < nops; i++ {
		k := keys[r.Intn(len(keys))]
		v := vals[r.Intn(len(vals))]
		x := r.Intn(100)
		if long {
			// long chains: mostly extend/commit and look up at old blocks
			switch {
			case x < 30:
				newBlock()
				b := blocks[len(blocks)-1]
				if r.Intn(6) == 0 {
					h.Ops = append(h.Ops, SCOp{Op: "bset", B: b.obj, K: k, V: v})
				}
				h.Ops = append(h.Ops, SCOp{Op: "bcommit", B: b.obj})
				committed[b.obj] = true
				continue
			case x < 80:
				hh := blocks[r.Intn(len(blocks))].hash
				h.Ops = append(h.Ops, SCOp{Op: "sget", H: hh, K: k})
				continue
			default:
				hh := blocks[len(blocks)-1-r.Intn(min(3, len(blocks)))].hash
				h.Ops = append(h.Ops, SCOp{Op: "qget", H: hh, K: k})
				continue
			}
		}
		var ob []string
		for _, o := range open {
			if !committed[o] {
				ob = append(ob, o)
			}
		}
		switch {
		case x < 10 || len(ob) == 0:
			newBlock()
		case x < 18:
			b := ob[r.Intn(len(ob))]
			t := fmt.Sprintf("t%d", len(txs)+1)
			txs = append(txs, t)
			txOf[t] = b
			h.Ops = append(h.Ops, SCOp{Op: "newtxn", T: t, B: b})
		case x < 30:
			h.Ops = append(h.Ops, SCOp{Op: "bset", B: ob[r.Intn(len(ob))], K: k, V: v})
		case x < 40:
			h.Ops = append(h.Ops, SCOp{Op: "bget", B: ob[r.Intn(len(ob))], K: k})
		case x < 52:
			b := ob[r.Intn(len(ob))]
			committed[b] = true
			if real, ok := late[b]; ok {
				h.Ops = append(h.Ops, SCOp{Op: "sethash", B: b, H: real})
				delete(late, b)
			}
			h.Ops = append(h.Ops, SCOp{Op: "bcommit", B: b})
		case x < 75:
			var ot []string
			for _, t := range txs {
				if !committed[txOf[t]] {
					ot = append(ot, t)
				}
			}
			if len(ot) == 0 {
				continue
			}
			t := ot[r.Intn(len(ot))]
			switch r.Intn(5) {
			case 0:
				h.Ops = append(h.Ops, SCOp{Op: "tset", T: t, K: k, V: v})
			case 1:
				h.Ops = append(h.Ops, SCOp{Op: "tremove", T: t, K: k})
			case 2:
				h.Ops = append(h.Ops, SCOp{Op: "tget", T: t, K: k})
			case 3:
				h.Ops = append(h.Ops, SCOp{Op: "tcommit", T: t})
			default:
				h.Ops = append(h.Ops, SCOp{Op: "tset", T: t, K: k, V: v})
			}
		case x < 88:
			h.Ops = append(h.Ops, SCOp{Op: "sget", H: blocks[r.Intn(len(blocks))].hash, K: k})
		default:
			h.Ops = append(h.Ops, SCOp{Op: "qget", H: blocks[r.Intn(len(blocks))].hash, K: k})
		}
	}
	return h
}

// GenSCCapacity builds the per-key capacity scenario: key written at the first
// block and again near the tip of a long committed chain, lookups at many
// distinct old blocks (each may memoise an entry), then lookups at the tip.
func GenSCCapacity(r *rand.Rand) SCHist {
	h := SCHist{Small: false, ValType: "mut"}
	n := 215 + r.Intn(60)
	w2 := n - 1 - r.Intn(5) // block that rewrites the key
	for i := 1; i <= n; i++ {
		b := fmt.Sprintf("b%d", i)
		prev := "genesis"
		if i > 1 {
			prev = fmt.Sprintf("h%d", i-1)
		}
		h.Ops = append(h.Ops, SCOp{Op: "newblock", B: b, H: fmt.Sprintf("h%d", i), P: prev})
		if i == 1 {
			h.Ops = append(h.Ops, SCOp{Op: "bset", B: b, K: "k1", V: "a"})
		}
		if i == w2 {
			h.Ops = append(h.Ops, SCOp{Op: "bset", B: b, K: "k1", V: "b"})
		}
		h.Ops = append(h.Ops, SCOp{Op: "bcommit", B: b})
	}
	look := 200 + r.Intn(12)
	for i := 2; i < 2+look && i < w2; i++ {
		h.Ops = append(h.Ops, SCOp{Op: "sget", H: fmt.Sprintf("h%d", i), K: "k1"})
	}
	for i := w2; i <= n; i++ {
		h.Ops = append(h.Ops, SCOp{Op: "sget", H: fmt.Sprintf("h%d", i), K: "k1"})
	}
	return h
}

// GenSCDeep builds a committed chain longer than the link table (2 000 entries) and the walk-back limit: the key is written
// at the first block and near the tip; lookups at the tip, just inside and just outside the limits.  Far lookups may
// miss (capacity), none may answer with anything but the value of the closest writer.
func GenSCDeep(r *rand.Rand) SCHist {
	h := SCHist{Small: false, ValType: "mut"}
	n := 2050 + r.Intn(100)
	w2 := n - 3 - r.Intn(20)
	for i := 1; i <= n; i++ {
		b := fmt.Sprintf("b%d", i)
		prev := "genesis"
		if i > 1 {
			prev = fmt.Sprintf("h%d", i-1)
		}
		h.Ops = append(h.Ops, SCOp{Op: "newblock", B: b, H: fmt.Sprintf("h%d", i), P: prev})
		if i == 1 {
			h.Ops = append(h.Ops, SCOp{Op: "bset", B: b, K: "k1", V: "a"})
		}
		if i == w2 {
			h.Ops = append(h.Ops, SCOp{Op: "bset", B: b, K: "k1", V: "b"})
		}
		h.Ops = append(h.Ops, SCOp{Op: "bcommit", B: b})
	}
	for _, i := range []int{n, w2, w2 - 1, n - 1999, n - 2000, n - 2001, 40, 2, 1, w2 - 1, n} {
		if i >= 1 {
			h.Ops = append(h.Ops, SCOp{Op: "sget", H: fmt.Sprintf("h%d", i), K: "k1"})
		}
	}
	return h
}

// GenSCCommitOrders enumerates the structured commit-order family: the block tree g <- A <- B <- C, A <- S, every
// assignment of {nothing, write, removal} of one key to the four blocks (removals go through a transaction), every
// order of the four commits, and after every commit a lookup at every block hash (state level and query cache).
func GenSCCommitOrders() []SCHist {
	type blk struct{ obj, hash, prev string }
	tree := []blk{{"bA", "hA", "genesis"}, {"bB", "hB", "hA"}, {"bC", "hC", "hB"}, {"bS", "hS", "hA"}}
	var perms [][]int
	var rec func(cur []int, used int)
	rec = func(cur []int, used int) {
		if len(cur) == 4 {
			perms = append(perms, append([]int(nil), cur...))
			return
		}
		for i := 0; i < 4; i++ {
			if used&(1<<i) == 0 {
				rec(append(cur, i), used|1<<i)
			}
		}
	}
	rec(nil, 0)
	var out []SCHist
	vts := []string{"mut", "leaf", "string"}
	for a := 0; a < 81; a++ {
		for pi, perm := range perms {
			h := SCHist{Small: true, ValType: vts[(a+pi)%len(vts)]}
			x := a
			for i, b := range tree {
				h.Ops = append(h.Ops, SCOp{Op: "newblock", B: b.obj, H: b.hash, P: b.prev})
				switch x % 3 {
				case 1:
					h.Ops = append(h.Ops, SCOp{Op: "bset", B: b.obj, K: "k1", V: fmt.Sprintf("v%d", i)})
				case 2:
					t := fmt.Sprintf("t%d", i)
					h.Ops = append(h.Ops, SCOp{Op: "newtxn", T: t, B: b.obj}, SCOp{Op: "tremove", T: t, K: "k1"}, SCOp{Op: "tcommit", T: t})
				}
				x /= 3
			}
			for _, i := range perm {
				h.Ops = append(h.Ops, SCOp{Op: "bcommit", B: tree[i].obj})
				for j, b := range tree {
					op := "sget"
					if (i+j)%2 == 1 {
						op = "qget"
					}
					h.Ops = append(h.Ops, SCOp{Op: op, H: b.hash, K: "k1"})
				}
			}
			out = append(out, h)
		}
	}
	return out
}
