SPECIFICATION Spec
CONSTANTS
  Keys <- AKeys
  Vals <- AVals
  Wts <- AWts
  Variant = "fixed"
INVARIANTS Refines TotalOK ResultOK
CHECK_DEADLOCK FALSE
