SPECIFICATION Spec
CONSTANTS
  Keys = {1, 2}
  Mutant = "none"
  Topos <- MCTopos
  GenMode = TRUE
  Depth = 10
CHECK_DEADLOCK FALSE
