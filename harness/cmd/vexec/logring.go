package main

import (
	"bufio"
	"bytes"
	"encoding/json"
	"math/rand"
	"os"

	"verifharness/exec"
	"verifharness/tr"
)

func init() { components["logring"] = runLogRing }

func runLogRing(args []string) (map[string]any, error) {
	c := newCommon("logring")
	nconc := c.fs.Int("nconc", 0, "number of concurrent runs")
	c.fs.Parse(args)
	w, err := tr.New(*c.out, *c.shards)
	if err != nil {
		return nil, err
	}
	st := &exec.LStats{Distinct: map[string]bool{}}
	tid, nTLC := 0, 0
	if *c.hist != "" {
		f, err := os.Open(*c.hist)
		if err != nil {
			return nil, err
		}
		sc := bufio.NewScanner(f)
		sc.Buffer(make([]byte, 1<<20), 1<<26)
		for sc.Scan() {
			line := bytes.TrimSpace(sc.Bytes())
			if len(line) == 0 {
				continue
			}
			var h exec.LHist
			if err := json.Unmarshal(line, &h); err != nil {
				return nil, err
			}
			tid++
			nTLC++
			exec.RunLogRing(w, st, tid, h)
		}
		f.Close()
	}
	r := rand.New(rand.NewSource(*c.seed))
	for i := 0; i < *c.n; i++ {
		tid++
		exec.RunLogRing(w, st, tid, exec.GenLogHist(r))
	}
	for i := 0; i < *nconc; i++ {
		tid++
		exec.RunLogRingConc(w, st, tid, r)
	}
	if err := w.Close(); err != nil {
		return nil, err
	}
	return map[string]any{"traces": st.Traces, "events": st.Events, "tlc_histories": nTLC, "go_histories": *c.n, "concurrent_runs": *nconc,
		"entries_written": st.Writes, "panics": st.Panics, "distinct_signatures": len(st.Distinct), "samples": w.Samples}, nil
}
