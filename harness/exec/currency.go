package exec

import (
	"fmt"
	"math"
	"math/big"
	"math/rand"
	"strconv"
	"strings"

	"verifharness/tr"

	"github.com/0chain/common/core/currency"
)

// CurStats collects coverage.
type CurStats struct {
	Traces, Events, Panics, Errors, Oks int
	Distinct                            map[string]bool
}

// limbs renders a non-negative integer as little-endian base-10^4 limbs (zero = empty).
func limbs(x *big.Int) []int {
	out := []int{}
	if x.Sign() < 0 {
		panic("negative")
	}
	base := big.NewInt(10000)
	y := new(big.Int).Set(x)
	m := new(big.Int)
	for y.Sign() > 0 {
		y.DivMod(y, base, m)
		out = append(out, int(m.Int64()))
	}
	return out
}

func ulimbs(x uint64) []int { return limbs(new(big.Int).SetUint64(x)) }

// fdesc describes a float64 for the specification: sign, NaN/Inf, exact integer part.
func fdesc(f float64) map[string]any {
	d := map[string]any{"neg": f < 0 || (f == 0 && math.Signbit(f) && false), "nan": math.IsNaN(f), "inf": math.IsInf(f, 0), "int": []int{}, "frac": false}
	if math.IsNaN(f) || math.IsInf(f, 0) {
		return d
	}
	bf := new(big.Float).SetFloat64(math.Abs(f))
	bi, acc := bf.Int(nil)
	d["int"] = limbs(bi)
	d["frac"] = acc != big.Exact
	return d
}

// decdesc describes the shortest round-trip decimal of a float: digits d and exponent e with f = d * 10^e.
func decdesc(f float64) map[string]any {
	d := map[string]any{"neg": f < 0, "nan": math.IsNaN(f), "inf": math.IsInf(f, 0), "digits": []int{}, "exp": 0, "ndig": 0}
	if math.IsNaN(f) || math.IsInf(f, 0) {
		return d
	}
	s := strconv.FormatFloat(math.Abs(f), 'e', -1, 64) // d.ddddde±xx
	parts := strings.SplitN(s, "e", 2)
	mant := strings.Replace(parts[0], ".", "", 1)
	e, _ := strconv.Atoi(parts[1])
	mant = strings.TrimRight(mant, "0")
	if mant == "" {
		return d
	}
	di, _ := new(big.Int).SetString(mant, 10)
	d["digits"] = limbs(di)
	d["ndig"] = len(mant)
	d["exp"] = e - (len(mant) - 1)
	return d
}

type curRun struct {
	w   *tr.Writer
	st  *CurStats
	tid int
}

func (c *curRun) emit(op string, ev map[string]any, f func() (string, map[string]any)) {
	c.tid++
	ev["tid"], ev["op"] = c.tid, op
	var out map[string]any
	res := Guard(func() string {
		r, o := f()
		out = o
		return r
	})
	ev["res"] = res
	for k, v := range out {
		ev[k] = v
	}
	if _, ok := ev["out"]; !ok {
		ev["out"] = []int{}
	}
	switch res {
	case "panic":
		c.st.Panics++
	case "err":
		c.st.Errors++
	default:
		c.st.Oks++
	}
	c.st.Distinct[op+"/"+res] = true
	c.w.NextTrace()
	c.w.Emit(ev)
	c.st.Events++
	c.st.Traces++
}

func coinRes(v currency.Coin, err error) (string, map[string]any) {
	if err != nil {
		return "err", nil
	}
	return "ok", map[string]any{"out": ulimbs(uint64(v))}
}

func i64(x int64) map[string]any {
	m := new(big.Int).SetInt64(x)
	neg := m.Sign() < 0
	m.Abs(m)
	return map[string]any{"neg": neg, "mag": limbs(m)}
}

// RunCurrency calls every exported helper on the operand lattice.
func RunCurrency(w *tr.Writer, st *CurStats, r *rand.Rand, nrand int) {
	c := &curRun{w: w, st: st}
	// boundary lattice of 64-bit values
	set := map[uint64]bool{0: true, 1: true, 2: true, 3: true, 9: true, 10: true, math.MaxUint64: true, math.MaxUint64 - 1: true,
		math.MaxInt64: true, math.MaxInt64 + 1: true, math.MaxInt64 - 1: true, 4294967295: true, 4294967296: true, 4294967297: true,
		3037000499: true, 3037000500: true, 6074000999: true, 1e10: true, 1e15: true, 1e18: true, 9999999999: true}
	for k := uint(1); k < 64; k++ {
		set[1<<k] = true
		set[1<<k-1] = true
		set[1<<k+1] = true
	}
	var vals []uint64
	for v := range set {
		vals = append(vals, v)
	}
	for i := 0; i < nrand; i++ {
		switch r.Intn(3) {
		case 0:
			vals = append(vals, r.Uint64())
		case 1:
			vals = append(vals, r.Uint64()>>uint(r.Intn(64)))
		default:
			vals = append(vals, uint64(r.Intn(100000)))
		}
	}
	pairs := [][2]uint64{}
	// quick: a deterministic seventh of the boundary pairs; thorough (nrand >= 1000): every boundary pair
	full := nrand >= 1000
	nb := len(set)
	for i, a := range vals {
		for j, b := range vals {
			if i < nb && j < nb {
				if full || (i*31+j*17)%7 == 0 || a <= 3 || b <= 3 || a == math.MaxUint64 || b == math.MaxUint64 {
					pairs = append(pairs, [2]uint64{a, b})
				}
			}
		}
	}
	// products congruent to 0 mod 2^64
	for k := uint(1); k < 64; k++ {
		pairs = append(pairs, [2]uint64{1 << k, 1 << (64 - k)}, [2]uint64{3 << k, 1 << (64 - k)}, [2]uint64{1 << k, 5 << (64 - k)})
	}
	for i := 0; i < nrand; i++ {
		pairs = append(pairs, [2]uint64{vals[r.Intn(len(vals))], vals[r.Intn(len(vals))]})
	}
	for _, p := range pairs {
		a, b := p[0], p[1]
		ab := map[string]any{"a": ulimbs(a), "b": ulimbs(b)}
		cp := func() map[string]any {
			m := map[string]any{}
			for k, v := range ab {
				m[k] = v
			}
			return m
		}
		c.emit("AddCoin", cp(), func() (string, map[string]any) { return coinRes(currency.AddCoin(currency.Coin(a), currency.Coin(b))) })
		c.emit("MinusCoin", cp(), func() (string, map[string]any) {
			return coinRes(currency.MinusCoin(currency.Coin(a), currency.Coin(b)))
		})
		c.emit("MultCoin", cp(), func() (string, map[string]any) { return coinRes(currency.MultCoin(currency.Coin(a), currency.Coin(b))) })
		c.emit("Min", cp(), func() (string, map[string]any) {
			return "ok", map[string]any{"out": ulimbs(uint64(currency.Min(currency.Coin(a), currency.Coin(b))))}
		})
		// signed second operand
		for _, x := range []int64{int64(b), -int64(b % (1 << 62)), int64(b % 7), 0, math.MinInt64} {
			x := x
			ev := func() map[string]any { return map[string]any{"a": ulimbs(a), "x": i64(x)} }
			c.emit("AddInt64", ev(), func() (string, map[string]any) { return coinRes(currency.AddInt64(currency.Coin(a), x)) })
			c.emit("MinusInt64", ev(), func() (string, map[string]any) { return coinRes(currency.MinusInt64(currency.Coin(a), x)) })
			c.emit("DistributeCoin", ev(), func() (string, map[string]any) {
				q, rem, err := currency.DistributeCoin(currency.Coin(a), x)
				if err != nil {
					return "err", nil
				}
				return "ok", map[string]any{"out": ulimbs(uint64(q)), "rem": ulimbs(uint64(rem))}
			})
		}
	}
	// format-then-parse candidates: amounts of at most 15 significant digits over the whole range, in particular above
	// 2^53 units where the amount itself is not a float (mantissa of 1..15 digits times a power of ten, and neighbours
	// of round amounts)
	rt := []uint64{100000000000001000, 900719925474099200, 9007199254740993000, 1234567890123450000, 9223372036854770000,
		9223372036854775000, 999999999999999000, 1000000000000001, 10000000000000010, 100000000000000100}
	nrt := 400
	if full {
		nrt = 60000
	}
	for i := 0; i < nrt; i++ {
		digits := 1 + r.Intn(15)
		m := uint64(r.Int63n(int64(math.Pow10(digits))))
		if r.Intn(3) == 0 {
			m = uint64(math.Pow10(digits-1)) + uint64(r.Intn(3)) // 10..0, 10..1, 10..2
		}
		for k := r.Intn(5); k > 0 && m <= math.MaxInt64/10; k-- {
			m *= 10
		}
		rt = append(rt, m)
	}
	for _, a := range append(append([]uint64(nil), vals...), rt...) {
		a := a
		c.emit("Int64", map[string]any{"a": ulimbs(a)}, func() (string, map[string]any) {
			v, err := currency.Coin(a).Int64()
			if err != nil {
				return "err", nil
			}
			return "ok", map[string]any{"out": i64(v)["mag"], "outneg": v < 0}
		})
		c.emit("Float64", map[string]any{"a": ulimbs(a)}, func() (string, map[string]any) {
			v, err := currency.Coin(a).Float64()
			if err != nil {
				return "err", nil
			}
			return "ok", map[string]any{"fout": fdesc(v)}
		})
		c.emit("Int64ToCoin", map[string]any{"x": i64(int64(a))}, func() (string, map[string]any) { return coinRes(currency.Int64ToCoin(int64(a))) })
		// format then parse
		c.emit("RoundTrip", map[string]any{"a": ulimbs(a), "sig": sigDigits(a)}, func() (string, map[string]any) {
			f, err := currency.Coin(a).ToZCN()
			if err != nil {
				return "err", map[string]any{"stage": 1}
			}
			v, err := currency.ParseZCN(f)
			if err != nil {
				return "err", map[string]any{"stage": 2}
			}
			return "ok", map[string]any{"out": ulimbs(uint64(v)), "stage": 0}
		})
	}
	// floats
	fl := []float64{0, math.Copysign(0, -1), 1, -1, 0.5, -0.5, 1e-320, 5e-324, 0.1, 1e-10, 1e-11, 1.00000000001, 0.12345678901, 123.4567890123,
		9007199254740991, 9007199254740992, 9007199254740993, 9223372036854775807, 9223372036854775808, 18446744073709551615, 1.8446744073709552e19,
		1.8446744073709550e19, 1e19, 2e19, 1e30, 1e300, math.MaxFloat64, math.NaN(), math.Inf(1), math.Inf(-1), 922337203.6854775807, 922337203.6854775,
		1844674407.3709551, 1844674407.37, 1e9, 1e8, 999999999.9999999, 0.0000000001, 0.00000000015, 3.3, 1e-9, 922337203.7, 1e10}
	for i := 0; i < nrand; i++ {
		switch r.Intn(4) {
		case 0:
			fl = append(fl, math.Float64frombits(r.Uint64()))
		case 1:
			fl = append(fl, float64(r.Int63())/float64(1+r.Intn(1000000)))
		case 2:
			fl = append(fl, float64(r.Intn(1000000))/1e4)
		default:
			fl = append(fl, math.Ldexp(r.Float64(), r.Intn(80)))
		}
	}
	for _, f := range fl {
		f := f
		c.emit("Float64ToCoin", map[string]any{"f": fdesc(f)}, func() (string, map[string]any) { return coinRes(currency.Float64ToCoin(f)) })
		c.emit("ParseZCN", map[string]any{"d": decdesc(f)}, func() (string, map[string]any) { return coinRes(currency.ParseZCN(f)) })
		for _, a := range []uint64{0, 1, 3, 1e10, math.MaxUint64, math.MaxInt64, vals[r.Intn(len(vals))]} {
			a := a
			prod := float64(a) * f
			c.emit("MultFloat64", map[string]any{"a": ulimbs(a), "f": fdesc(f), "p": fdesc(prod)}, func() (string, map[string]any) {
				return coinRes(currency.MultFloat64(currency.Coin(a), f))
			})
		}
	}
}

func sigDigits(a uint64) int {
	s := strings.TrimRight(fmt.Sprint(a), "0")
	return len(s)
}
