SPECIFICATION PSpec
CONSTANTS
  Tries <- MCTries
  MaxEdits = 2
  AllowReweight = TRUE
  GenMode = TRUE
INVARIANTS Complete EmitPlan
CHECK_DEADLOCK FALSE
