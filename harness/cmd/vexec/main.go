// vexec drives the real 0chain/common code and records ndjson traces for the
// TLA+ trace specifications in /verif/specs.
package main

import (
	"encoding/json"
	"flag"
	"fmt"
	"os"
)

type runner func(args []string) (summary map[string]any, err error)

var components = map[string]runner{}

func main() {
	if len(os.Args) < 2 {
		fmt.Fprintln(os.Stderr, "usage: vexec <component> [flags]")
		os.Exit(2)
	}
	r, ok := components[os.Args[1]]
	if !ok {
		fmt.Fprintln(os.Stderr, "unknown component", os.Args[1])
		os.Exit(2)
	}
	sum, err := r(os.Args[2:])
	if err != nil {
		fmt.Fprintln(os.Stderr, "vexec:", err)
		os.Exit(2)
	}
	b, _ := json.Marshal(sum)
	fmt.Println(string(b))
}

// common flags
type common struct {
	fs     *flag.FlagSet
	seed   *int64
	out    *string
	shards *int
	n      *int
	hist   *string
}

func newCommon(name string) *common {
	fs := flag.NewFlagSet(name, flag.ExitOnError)
	return &common{
		fs:     fs,
		seed:   fs.Int64("seed", 1, "random seed"),
		out:    fs.String("out", "trace", "output prefix"),
		shards: fs.Int("shards", 1, "number of trace shards"),
		n:      fs.Int("n", 100, "number of generated histories"),
		hist:   fs.String("hist", "", "file with TLC-generated histories"),
	}
}
