SPECIFICATION Spec
CONSTANTS
  Cap = 1024
  Sizes = {1, 2, 1023, 1500}
  MaxLoggers = 3
  Depth = 4
  GenMode = TRUE
CHECK_DEADLOCK FALSE
