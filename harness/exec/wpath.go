package exec

import (
	"bytes"
	"fmt"
	"math/rand"
	"sort"

	"verifharness/bridge"
	"verifharness/tr"

	"github.com/0chain/common/core/util/wmpt"
)

// PathPlan: source content, collapse level (-1: keep in memory), requested
// keys (indexes into WKeys; >= 100: absent filler keys), mirrored operations.
type PathPlan struct {
	Uni   string   `json:"uni,omitempty"` // key universe (see UniverseKeys)
	Sub   []int    `json:"sub,omitempty"`
	Init  [][2]any `json:"init"`  // [k, v]
	Level int      `json:"level"` // -1 in memory; L: Commit(L) to storage first; 100+L: Commit(L), then re-opened from (root, weight)
	Req   []int    `json:"req"`
	Ops   []WOp    `json:"ops"`             // update / delete on requested keys
	Scale uint64   `json:"scale,omitempty"` // weight scale (0 = chosen by trace number); set by replays
}

// PathStats collects coverage.
type PathStats struct {
	Traces, Events, Panics, ImportErrors int
	Distinct                             map[string]bool
}

func fillerKey(i int) []byte {
	// greater than every key of WKeys and ordered by i (the specification orders keys by rank)
	k := bytes.Repeat([]byte{0x77}, 32)
	k[0] = 0xfe
	k[1] = byte(i)
	return k
}

// RunPath executes one export/import/mirror scenario.
func RunPath(w *tr.Writer, in *tr.Interner, st *PathStats, tid int, p PathPlan) {
	w.NextTrace()
	st.Traces++
	db := &memKV{m: map[string][]byte{}}
	full := wmpt.New(nil, db)
	// real weights are the scenario's small weights times a per-trace scale (see wrun.scale)
	scaler := &wrun{scale: []uint64{1, 1000, 1, 1 << 20, 1<<33 + 7, 1, 1 << 40}[tid%7]}
	if p.Scale != 0 {
		scaler.scale = p.Scale
	}
	S := scaler.scale
	ukeys := UniverseKeys(p.Uni, p.Sub)
	keyOf := func(i int) []byte {
		if i >= 100 {
			return fillerKey(i - 100)
		}
		return ukeys[i]
	}
	var initEv []any
	for _, kv := range p.Init {
		k := int(toF(kv[0]))
		v := kv[1].(string)
		wt, val := wval(v)
		if err := full.Update(keyOf(k), val, wt*S); err != nil {
			panic(err)
		}
		initEv = append(initEv, []any{k, string(val), wt})
	}
	if initEv == nil {
		initEv = []any{}
	}
	if p.Level >= 0 {
		b, err := full.Commit(p.Level % 100)
		if err != nil {
			panic(err)
		}
		b.Commit(true)
		if p.Level >= 100 && full.Weight() > 0 {
			full = wmpt.New(wmpt.NewHashNode(full.Root(), full.Weight()), db)
		}
	}
	emit := func(ev map[string]any) {
		ev["tid"] = tid
		w.Emit(ev)
		st.Events++
	}
	psub := p.Sub
	if psub == nil {
		psub = []int{}
	}
	emit(map[string]any{"op": "reset", "init": initEv, "level": p.Level, "empty": in.ID(bridge.EmptyState), "uni": p.Uni, "sub": psub, "scale": S})
	// export
	var keys [][]byte
	for _, i := range p.Req {
		keys = append(keys, keyOf(i))
	}
	var data []byte
	partial := wmpt.New(nil, nil)
	reqEv := p.Req
	if reqEv == nil {
		reqEv = []int{}
	}
	ev := map[string]any{"op": "export", "req": reqEv, "nreq": len(p.Req)}
	ev["res"] = Guard(func() string {
		d, err := full.GetPath(keys)
		if err != nil {
			return "err"
		}
		data = d
		return "ok"
	})
	ev["import"] = "skipped"
	if ev["res"] == "ok" {
		ev["import"] = Guard(func() string {
			if err := partial.Deserialize(data); err != nil {
				return "err"
			}
			return "ok"
		})
	}
	if ev["import"] != "ok" {
		st.ImportErrors++
	}
	obs := func(ev map[string]any) {
		res := Guard(func() string {
			ev["froot"], ev["fweight"] = in.ID(full.Root()), scaler.sw(full.Weight())
			ev["proot"], ev["pweight"] = in.ID(partial.Root()), scaler.sw(partial.Weight())
			return "ok"
		})
		if res != "ok" {
			ev["froot"], ev["fweight"], ev["proot"], ev["pweight"] = -1, 0, -2, 0
			st.Panics++
		}
	}
	obs(ev)
	emit(ev)
	sig := fmt.Sprintf("%s/%d/%d/%d/", p.Uni, len(p.Init), p.Level, len(p.Req))
	if ev["import"] == "ok" {
		for _, op := range p.Ops {
			ev := map[string]any{"op": op.Op, "k": op.K, "v": op.V}
			wt, val := wval(op.V)
			if op.Op == "delete" {
				wt, val = 0, nil
			}
			ev["w"] = wt
			ev["v"] = string(val)
			ev["tok"] = op.V
			ev["fres"] = Guard(func() string {
				if err := full.Update(keyOf(op.K), val, wt*S); err != nil {
					if err == wmpt.ErrNotFound {
						return "notfound"
					}
					return "err"
				}
				return "ok"
			})
			ev["pres"] = Guard(func() string {
				if err := partial.Update(keyOf(op.K), val, wt*S); err != nil {
					if err == wmpt.ErrNotFound {
						return "notfound"
					}
					return "err"
				}
				return "ok"
			})
			if ev["fres"] == "panic" || ev["pres"] == "panic" {
				st.Panics++
			}
			obs(ev)
			emit(ev)
			sig += op.Op[:1]
		}
	}
	// final independent root of the full trie's content as observed through proofs
	{
		r := &wrun{w: w, in: in, st: &WStats{Distinct: map[string]bool{}, Modes: map[string]int{}}, tid: tid, kidx: map[string]int{}, scale: S}
		for i, k := range ukeys {
			r.kidx[string(k)] = i
		}
		for i := 0; i < 20; i++ {
			r.kidx[string(fillerKey(i))] = 100 + i
		}
		list, total, ok := r.owners(full)
		var entries []bridge.WEntry
		seen := map[int]bool{}
		for _, x := range list {
			row := x.([]any)
			idx := row[1].(int)
			if idx >= 0 && !seen[idx] {
				seen[idx] = true
				entries = append(entries, bridge.WEntry{Key: keyOf(idx), Value: []byte(row[2].(string)), Weight: uint64(row[3].(int64)) * S})
			}
		}
		wr, wt := bridge.WRoot(entries)
		emit(map[string]any{"op": "final", "owners": list, "total": total, "ok": ok, "rootOK": bytes.Equal(wr, full.Root()) && total >= 0 && wt == uint64(total)*S,
			"froot": in.ID(full.Root())})
	}
	st.Distinct[sig] = true
}

func toF(x any) float64 {
	switch v := x.(type) {
	case float64:
		return v
	case int:
		return float64(v)
	}
	return 0
}

// GenPathPlan draws a random scenario.
func GenPathPlan(r *rand.Rand) PathPlan {
	var p PathPlan
	p.Uni, p.Sub = PickUniverse(r, len(WKeys))
	nk := r.Intn(len(WKeys) + 1)
	if r.Intn(8) == 0 {
		nk = 1
	}
	perm := r.Perm(len(WKeys))[:nk]
	if r.Intn(4) == 0 { // keys sharing a long prefix only: the root is a shared-prefix node
		perm = nil
		for _, i := range []int{0, 1, 2} {
			if r.Intn(4) > 0 {
				perm = append(perm, i)
			}
		}
	}
	sort.Ints(perm)
	uniq := 0
	val := func(k int) string {
		uniq++
		v := fmt.Sprintf("%s#%d.%d", []string{"a", "bb", "ccc"}[r.Intn(3)], k, uniq)
		if uniq%4 == 0 {
			v += LongPad(uniq)
		}
		return v
	}
	for _, k := range perm {
		p.Init = append(p.Init, [2]any{k, val(k)})
	}
	p.Level = []int{-1, -1, 0, 1, 2, 3, 64, 100, 101, 102}[r.Intn(10)]
	nreq := r.Intn(15)
	if r.Intn(3) == 0 {
		nreq = 9 + r.Intn(6) // both sides of the parallel-collection threshold
	}
	seen := map[int]bool{}
	for len(p.Req) < nreq {
		var k int
		if r.Intn(3) == 0 || len(seen) >= len(WKeys) {
			k = 100 + r.Intn(20)
		} else {
			k = r.Intn(len(WKeys))
		}
		if !seen[k] {
			seen[k] = true
			p.Req = append(p.Req, k)
		}
	}
	if len(p.Req) > 0 {
		nops := r.Intn(8)
		delBias := 3 - r.Intn(2)*2 // every other plan deletes mostly: merges with siblings that were not requested
		for i := 0; i < nops; i++ {
			k := p.Req[r.Intn(len(p.Req))]
			if r.Intn(delBias) == 0 {
				p.Ops = append(p.Ops, WOp{Op: "delete", K: k})
			} else {
				p.Ops = append(p.Ops, WOp{Op: "update", K: k, V: val(k)})
			}
		}
	}
	return p
}
