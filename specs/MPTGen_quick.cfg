SPECIFICATION GSpec
CONSTANTS
  Paths <- GPathsQ
  Values <- GValues
  Mode = "hist"
  Depth = 3
CHECK_DEADLOCK FALSE
