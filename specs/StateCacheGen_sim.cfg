SPECIFICATION GSpec
CONSTANTS
  Hashes <- MCHashes
  PrevFn <- MCPrev
  BCs <- MCBCs
  BCHashFn <- MCBCHash
  TXs <- MCTXs
  TXBlockFn <- MCTXBlock
  Keys <- MCKeys
  Vals <- MCVals
  Depth = 14
CHECK_DEADLOCK FALSE
