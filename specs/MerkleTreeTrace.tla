---------------------------- MODULE MerkleTreeTrace ----------------------------
(* Trace validation of ComputeTree / GetPathByIndex / GetPath / VerifyPath /     *)
(* VerifyMerklePath / SetTree against MerkleTree.tla (C19).  One event per tree. *)
EXTENDS MerkleTree, Json, IOUtils
Trace == ndJsonDeserialize(IOEnv.TRACE)
VARIABLES l, bad, nbad, ntr
tvars == <<n, l, bad, nbad, ntr>>
MaxBad == 40
\* deviations are kept per class (operation, failed checks, deviation flags): a flood of one class never hides another
KeepBad(bd, op, fl, dv) == Cardinality({b \in bd : b[3] = op /\ b[4] = fl /\ b[5] = dv}) < 6 /\ Cardinality(bd) < 40 * MaxBad
ToSet(s) == {s[i] : i \in DOMAIN s}
Flag(cond, name) == IF cond THEN {} ELSE {name}

RowOK(m, row) ==
  \* row = <<idx, positions per path node (each a list of array positions holding that hash), byIndex, byLeaf, foreign>>
  /\ Len(row[2]) = PathLen(m)
  /\ \A L \in 1..PathLen(m) : SiblingPos(m, row[1], L) \in ToSet(row[2][L])

EventFlags(e) ==
  IF e.res # "ok" THEN {"panic"}
  ELSE   Flag(e.size = TreeSize(e.n) /\ e.rootlast, "size")
    \cup Flag({<<t[1], t[2], t[3]>> : t \in ToSet(e.layout)} = Layout(e.n) /\ \A t \in ToSet(e.layout) : t[4], "layout")
    \cup Flag(\A row \in ToSet(e.rows) : RowOK(e.n, row), "pathpos")
    \cup Flag(\A row \in ToSet(e.rows) : row[3], "verifyindex")
    \cup Flag(\A row \in ToSet(e.rows) : row[4], "verifyleaf")
    \cup Flag(\A row \in ToSet(e.rows) : ~row[5], "foreign")
    \cup Flag(e.settree, "settree")

TraceInit == n = 1 /\ l = 1 /\ bad = {} /\ nbad = 0 /\ ntr = 0
TraceNext ==
  /\ l <= Len(Trace)
  /\ LET e == Trace[l] f == EventFlags(e) IN
     /\ n' = n /\ l' = l + 1 /\ ntr' = ntr + 1
     /\ nbad' = IF f = {} THEN nbad ELSE nbad + 1
     /\ bad' = IF f = {} \/ ~KeepBad(bad, e.op, f, {}) THEN bad ELSE bad \cup {<<e.tid, l, e.op, f, {}>>}
TraceSpec == TraceInit /\ [][TraceNext]_tvars
Report == l <= Len(Trace) \/ PrintT(<<"VERIF_RESULT", l - 1, ntr, nbad, bad>>)
=============================================================================
