SPECIFICATION ASpec
CONSTANTS
  Paths <- APaths
  Values <- AValues
  Variant = "fixed"
INVARIANTS Refines ResultOK
CHECK_DEADLOCK FALSE
