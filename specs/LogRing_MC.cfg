SPECIFICATION Spec
CONSTANTS
  Cap = 8
  Sizes = {1, 3, 8, 9}
  MaxLoggers = 3
  Depth = 0
  GenMode = FALSE
INVARIANT SnapshotShape
VIEW View
CHECK_DEADLOCK FALSE
