------------------------------ MODULE MPTSync_MC ------------------------------
EXTENDS MPTSync
SPaths == { <<>>, <<"0","0">>, <<"0","0","0","0">>, <<"0","0","0","1">>, <<"0","1","0","0">>, <<"1","0">>, <<"0","0","1","1">> }
\* all contents with 2..4 entries over SPaths, single value
SContents == { [p \in D |-> "a"] : D \in {X \in SUBSET SPaths : Cardinality(X) \in 2..4} }
SContentsBig == { [p \in D |-> "a"] : D \in {X \in SUBSET SPaths : Cardinality(X) \in 2..6} }
=============================================================================
