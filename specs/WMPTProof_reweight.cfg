SPECIFICATION PSpec
CONSTANTS
  Tries <- MCTriesQ
  MaxEdits = 2
  AllowReweight = TRUE
  GenMode = FALSE
INVARIANTS Complete Sound
CHECK_DEADLOCK FALSE
