SPECIFICATION TraceSpec
CONSTANT N = 1
INVARIANT Report
CHECK_DEADLOCK FALSE
