SPECIFICATION Spec
CONSTANTS
  NKeys = 3
  ReW = {}
  Vals <- MCValsQ
  Wt <- MCWt
  Depth = 0
  GenMode = FALSE
INVARIANTS OwnerPartition OwnerWeights
PROPERTY ContentStable
VIEW View
CHECK_DEADLOCK FALSE
