------------------------------ MODULE MPTTxn_MC ------------------------------
EXTENDS MPTTxn
TPaths == { <<"0","0","0","0">>, <<"0","0","1","1">>, <<"0","1">> }
TPaths4 == TPaths \cup { <<>> }
TPaths2 == { <<"0","0","0","0">>, <<"0","0","1","1">> }
\* sibling family: two keys below a 4-character extension, a key that splits that extension in the middle, a value on the branch
TPathsSib == { <<"0","0","0","0","1","1">>, <<"0","0","0","0","2","2">>, <<"0","0","5","5">>, <<"0","0","0","0">> }
TValues == {"a"}
TValues2 == {"a", "b"}
TChildren == {1, 2}
TChildren3 == {1, 2, 3}
=============================================================================
