SPECIFICATION PSpec
CONSTANTS
  NKeys = 0
  ReW = {}
  Vals = {}
  Wt = {}
  Depth = 0
  GenMode = TRUE
  PKeys = {0, 1, 3}
  AKeys = {100}
  MaxOps = 2
  Uni = "w"
  MaxInit = 3
  MaxReq = 4
  Bigs = {TRUE, FALSE}
  InMemory = TRUE
  Levels = {0, 1}
INVARIANTS EmitAll OnlyRequested
CHECK_DEADLOCK FALSE
