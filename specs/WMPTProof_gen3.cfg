SPECIFICATION PSpec
CONSTANTS
  Tries <- MCTries
  MaxEdits = 2
  AllowImitate = TRUE
  AllowReweight = TRUE
  GenMode = TRUE
INVARIANTS Complete EmitPlan
CHECK_DEADLOCK FALSE
