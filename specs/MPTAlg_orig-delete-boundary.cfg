SPECIFICATION ASpec
CONSTANTS
  Paths <- APaths
  Values <- AValues
  Variant = "orig-delete-boundary"
INVARIANTS Refines ResultOK
CHECK_DEADLOCK FALSE
