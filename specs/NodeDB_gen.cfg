SPECIFICATION Spec
CONSTANTS
  Keys = {1, 2}
  Topos <- MCTopos
  GenMode = TRUE
  Depth = 3
CHECK_DEADLOCK FALSE
