// Package tr writes ndjson traces consumed by the TLA+ trace specifications.
package tr

import (
	"bufio"
	"bytes"
	"encoding/json"
	"fmt"
	"os"
	"sync"
)

// Writer shards events over several files (whole traces stay in one shard).
type Writer struct {
	mu      sync.Mutex
	files   []*os.File
	bufs    []*bufio.Writer
	Events  []int
	Traces  []int
	cur     int
	Samples []string // first few lines, for evidence
}

// New creates n shard files named prefix.<i>.ndjson.
func New(prefix string, n int) (*Writer, error) {
	w := &Writer{}
	for i := 0; i < n; i++ {
		f, err := os.Create(fmt.Sprintf("%s.%d.ndjson", prefix, i))
		if err != nil {
			return nil, err
		}
		w.files = append(w.files, f)
		w.bufs = append(w.bufs, bufio.NewWriterSize(f, 1<<20))
	}
	w.Events = make([]int, n)
	w.Traces = make([]int, n)
	return w, nil
}

// NextTrace selects the shard for the next trace (round robin).
func (w *Writer) NextTrace() {
	w.mu.Lock()
	w.cur = (w.cur + 1) % len(w.files)
	w.Traces[w.cur]++
	w.mu.Unlock()
}

// Shard returns the current shard index.
func (w *Writer) Shard() int { return w.cur }

// Emit writes one event to the current shard.
// marshal renders an event; a nil slice or map somewhere inside (JSON null, which the TLA+ side cannot read) becomes an
// empty array: an executor must be able to report a degenerate observation instead of breaking the trace.
func marshal(ev map[string]any) []byte {
	b, err := json.Marshal(ev)
	if err != nil {
		panic(err)
	}
	if !bytes.Contains(b, []byte("null")) {
		return b
	}
	var v any
	dec := json.NewDecoder(bytes.NewReader(b))
	dec.UseNumber()
	if dec.Decode(&v) != nil {
		return b
	}
	var fix func(x any) any
	fix = func(x any) any {
		switch t := x.(type) {
		case nil:
			return []any{}
		case map[string]any:
			for k, e := range t {
				t[k] = fix(e)
			}
			return t
		case []any:
			for i, e := range t {
				t[i] = fix(e)
			}
			return t
		}
		return x
	}
	b2, err := json.Marshal(fix(v))
	if err != nil {
		return b
	}
	return b2
}

func (w *Writer) Emit(ev map[string]any) {
	b := marshal(ev)
	w.mu.Lock()
	defer w.mu.Unlock()
	w.bufs[w.cur].Write(b)
	w.bufs[w.cur].WriteByte('\n')
	w.Events[w.cur]++
	if len(w.Samples) < 12 && len(b) < 1500 {
		w.Samples = append(w.Samples, string(b))
	}
}

// EmitTo writes one event to a specific shard.
func (w *Writer) EmitTo(shard int, ev map[string]any) {
	b := marshal(ev)
	w.mu.Lock()
	defer w.mu.Unlock()
	w.bufs[shard].Write(b)
	w.bufs[shard].WriteByte('\n')
	w.Events[shard]++
}

// Close flushes everything.
func (w *Writer) Close() error {
	for i := range w.files {
		if err := w.bufs[i].Flush(); err != nil {
			return err
		}
		if err := w.files[i].Close(); err != nil {
			return err
		}
	}
	return nil
}

// Interner maps byte strings to small integers (1-based).
type Interner struct {
	m map[string]int
}

func NewInterner() *Interner { return &Interner{m: map[string]int{}} }

func (in *Interner) ID(b []byte) int {
	if len(b) == 0 {
		return 0
	}
	id, ok := in.m[string(b)]
	if !ok {
		id = len(in.m) + 1
		in.m[string(b)] = id
	}
	return id
}

func (in *Interner) Len() int { return len(in.m) }
