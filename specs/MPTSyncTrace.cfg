SPECIFICATION TraceSpec
CONSTANTS
  Paths = {}
  Values = {}
  Contents = {}
  GenMode = FALSE
INVARIANT Report
CHECK_DEADLOCK FALSE
