#!/usr/bin/env python3
"""Print the DESIGN.md section 9 table from /verif/seeded/*/meta.json."""
import glob, json, os
rows = []
for p in sorted(glob.glob(os.path.join(os.path.dirname(__file__), "..", "seeded", "*", "meta.json"))):
    d = json.load(open(p))
    checks = "; ".join("`check %s`: %s" % (k, v) for k, v in sorted(d.get("checks", {}).items()))
    rows.append("| %s | %s | %s | %s |" % (d["name"], d["property"], d.get("needs_to_manifest", "").replace("|", "\\|"), checks.replace("|", "\\|")))
print("| Seeded change | Property | What it is and what it needs to manifest | Checks (tier) and the deviation class they report |")
print("|---|---|---|---|")
print("\n".join(rows))
