package main

import (
	"bufio"
	"bytes"
	"encoding/json"
	"fmt"
	"math/rand"
	"os"

	"verifharness/exec"
	"verifharness/tr"
)

func init() { components["codec"] = runCodec }

func runCodec(args []string) (map[string]any, error) {
	c := newCommon("codec")
	c.fs.Parse(args)
	w, err := tr.New(*c.out, *c.shards)
	if err != nil {
		return nil, err
	}
	st := &exec.CStats{Distinct: map[string]bool{}}
	seeds := exec.HarvestSeeds()
	tid, nTLC := 0, 0
	for i, s := range seeds {
		tid++
		exec.RunCodecInput(w, st, tid, s.Kind, fmt.Sprintf("seed%d", i), s.Data)
	}
	if *c.hist != "" {
		f, err := os.Open(*c.hist)
		if err != nil {
			return nil, err
		}
		sc := bufio.NewScanner(f)
		sc.Buffer(make([]byte, 1<<20), 1<<26)
		for sc.Scan() {
			line := bytes.TrimSpace(sc.Bytes())
			if len(line) == 0 {
				continue
			}
			var p exec.CPlan
			if err := json.Unmarshal(line, &p); err != nil {
				return nil, err
			}
			// the plan is applied to every seed of the corpus whose index is congruent to the plan's seed class
			for si := range seeds {
				if si%4 != p.Seed%4 {
					continue
				}
				tid++
				how := ""
				for _, m := range p.Muts {
					how += m.M[:2]
				}
				exec.RunCodecInput(w, st, tid, seeds[si].Kind, how, exec.ApplyMuts(seeds, si, p.Muts))
			}
			nTLC++
		}
		f.Close()
	}
	r := rand.New(rand.NewSource(*c.seed))
	for i := 0; i < *c.n; i++ {
		tid++
		d, how := exec.RandomBytes(r, seeds)
		exec.RunCodecInput(w, st, tid, "random", how, d)
	}
	if err := w.Close(); err != nil {
		return nil, err
	}
	return map[string]any{"traces": st.Traces, "events": st.Events, "tlc_histories": nTLC, "go_histories": *c.n, "seeds": len(seeds),
		"panics": st.Panics, "timeouts": st.Timeouts, "accepted": st.Accepted, "rejected": st.Rejected,
		"distinct_outcome_classes": len(st.Distinct), "samples": w.Samples}, nil
}
