SPECIFICATION Spec
CONSTANTS
  NKeys = 2
  ReW = {1, 3}
  Vals <- MCVals1
  Wt <- MCWt
  Depth = 0
  GenMode = FALSE
INVARIANTS OwnerPartition OwnerWeights
PROPERTY ContentStable
VIEW View
CHECK_DEADLOCK FALSE
