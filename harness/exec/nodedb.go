package exec

import (
	"bytes"
	"context"
	"fmt"
	"math/rand"
	"sort"

	"verifharness/tr"

	"github.com/0chain/common/core/util"
	"github.com/linxGnu/grocksdb"
)

// NOp is one operation of a node-store history (NodeDB.tla).
type NOp struct {
	Op string `json:"op"`
	H  string `json:"h"`
	Ks []int  `json:"ks"`
	H2 string `json:"h2"`
}

// NHist is one node-store history.
type NHist struct {
	Topo  struct{ C1, P1, C2, P2 string } `json:"topo"`
	Prop1 bool                            `json:"prop1"`
	Prop2 bool                            `json:"prop2"`
	Ops   []NOp                           `json:"ops"`
}

// NStats collects coverage.
type NStats struct {
	Traces, Events, Panics int
	Distinct               map[string]bool
}

const nodeDBKeys = 6

// RunNodeDB executes one history on real MemoryNodeDB / PNodeDB / LevelNodeDB objects.
func RunNodeDB(w *tr.Writer, st *NStats, tid int, h NHist) {
	w.NextTrace()
	st.Traces++
	pdirSeq++
	dir := fmt.Sprintf("stub-%d", pdirSeq)
	p, err := util.NewPNodeDB(dir, "log")
	if err != nil {
		panic(err)
	}
	defer grocksdb.DropStore(dir)
	stores := map[string]util.NodeDB{"m1": util.NewMemoryNodeDB(), "m2": util.NewMemoryNodeDB(), "m3": util.NewMemoryNodeDB(), "p": p}
	handles := map[string]util.NodeDB{}
	for k, v := range stores {
		handles[k] = v
	}
	// l1 first: l2 may sit on it
	l1 := util.NewLevelNodeDB(handles[h.Topo.C1], handles[h.Topo.P1], h.Prop1)
	handles["l1"] = l1
	l2 := util.NewLevelNodeDB(handles[h.Topo.C2], handles[h.Topo.P2], h.Prop2)
	handles["l2"] = l2
	levels := map[string]*util.LevelNodeDB{"l1": l1, "l2": l2}
	// the node universe: leaves with distinct values; canonical encodings by key index
	var keys []util.Key
	var encs [][]byte
	mk := func(i int) *util.LeafNode {
		return util.NewLeafNode(util.Path("0a"), util.Path(fmt.Sprintf("%02x", i)), util.Sequence(1), Val([]byte(fmt.Sprintf("node-%d", i))))
	}
	kidx := map[string]int{}
	for i := 0; i < nodeDBKeys; i++ {
		n := mk(i)
		keys = append(keys, n.GetHashBytes())
		encs = append(encs, n.Encode())
		kidx[string(n.GetHashBytes())] = i
	}
	emit := func(ev map[string]any) {
		ev["tid"] = tid
		// projected state: every plain store read directly
		state := map[string]any{}
		encOK := true
		for name, db := range stores {
			present := []int{}
			for i, k := range keys {
				if n, err := db.GetNode(k); err == nil && n != nil {
					present = append(present, i)
					if !bytes.Equal(n.Encode(), encs[i]) {
						encOK = false
					}
				}
			}
			state[name] = present
		}
		rec := map[string]any{}
		for name, l := range levels {
			r := []int{}
			for k := range l.DeletedNodes {
				if i, ok := kidx[string(k)]; ok {
					r = append(r, i)
				}
			}
			sort.Ints(r)
			rec[name] = r
		}
		ev["state"], ev["delrec"], ev["encOK"] = state, rec, encOK
		w.Emit(ev)
		st.Events++
	}
	emit(map[string]any{"op": "reset", "topo": []string{h.Topo.C1, h.Topo.P1, h.Topo.C2, h.Topo.P2}, "prop1": h.Prop1, "prop2": h.Prop2})
	sig := fmt.Sprintf("%v%v%v/", h.Topo, h.Prop1, h.Prop2)
	for _, op := range h.Ops {
		db := handles[op.H]
		ks := op.Ks
		if ks == nil {
			ks = []int{}
		}
		ev := map[string]any{"op": op.Op, "h": op.H, "ks": ks, "h2": op.H2}
		kk := func() []util.Key {
			var out []util.Key
			for _, i := range ks {
				out = append(out, keys[i])
			}
			return out
		}
		// fresh node objects for every put; they are scribbled over after the call (a store must hold its own copy)
		var fresh []*util.LeafNode
		nodes := func() []util.Node {
			var out []util.Node
			for _, i := range ks {
				n := mk(i)
				fresh = append(fresh, n)
				out = append(out, n)
			}
			return out
		}
		res := Guard(func() string {
			switch op.Op {
			case "get":
				n, err := db.GetNode(keys[ks[0]])
				ev["found"] = err == nil && n != nil
			case "put":
				if db.PutNode(keys[ks[0]], nodes()[0]) != nil {
					return "err"
				}
			case "del":
				if db.DeleteNode(keys[ks[0]]) != nil {
					return "err"
				}
			case "mget":
				ns, err := db.MultiGetNode(kk())
				ev["found"], ev["err"] = len(ns), err != nil
			case "mput":
				if db.MultiPutNode(kk(), nodes()) != nil {
					return "err"
				}
			case "mdel":
				if db.MultiDeleteNode(kk()) != nil {
					return "err"
				}
			case "iter":
				cnt := map[int]int{}
				_ = db.Iterate(context.Background(), func(ctx context.Context, key util.Key, node util.Node) error {
					if i, ok := kidx[string(key)]; ok {
						cnt[i]++
					} else {
						cnt[-1]++
					}
					return nil
				})
				vis := [][2]int{}
				for i, c := range cnt {
					vis = append(vis, [2]int{i, c})
				}
				sort.Slice(vis, func(a, b int) bool { return vis[a][0] < vis[b][0] })
				ev["visits"] = vis
			case "size":
				ev["n"] = db.Size(context.Background())
			case "rebase":
				levels[op.H].RebaseCurrentDB(handles[op.H2])
			case "setprev":
				levels[op.H].SetPrev(handles[op.H2])
			case "merge":
				if util.MergeState(context.Background(), handles[op.H2], db) != nil {
					return "err"
				}
			default:
				return "unknown"
			}
			return "ok"
		})
		for _, n := range fresh {
			n.SetValue(Val([]byte("scribbled")))
		}
		if res == "panic" {
			st.Panics++
		}
		ev["res"] = res
		for k, v := range map[string]any{"found": false, "err": false, "visits": [][2]int{}, "n": 0} {
			if _, ok := ev[k]; !ok {
				ev[k] = v
			}
		}
		emit(ev)
		sig += op.Op[:2] + op.H
	}
	st.Distinct[sig] = true
}

// GenNodeDB draws a random history.
func GenNodeDB(r *rand.Rand) NHist {
	var h NHist
	switch r.Intn(3) {
	case 0:
		h.Topo.C1, h.Topo.P1, h.Topo.C2, h.Topo.P2 = "m1", "m2", "m3", "l1"
	case 1:
		h.Topo.C1, h.Topo.P1, h.Topo.C2, h.Topo.P2 = "m1", "p", "m3", "l1"
	default:
		h.Topo.C1, h.Topo.P1, h.Topo.C2, h.Topo.P2 = "p", "m2", "m3", "l1"
	}
	h.Prop1, h.Prop2 = r.Intn(3) == 0, r.Intn(3) == 0
	hs := []string{"m1", "m2", "m3", "p", "l1", "l2", "l1", "l2", "l2"}
	ss := []string{"m1", "m2", "m3", "p"}
	n := 5 + r.Intn(25)
	for i := 0; i < n; i++ {
		op := NOp{H: hs[r.Intn(len(hs))]}
		k := func() int { return r.Intn(nodeDBKeys) }
		switch x := r.Intn(100); {
		case x < 25:
			op.Op, op.Ks = "put", []int{k()}
		case x < 40:
			op.Op, op.Ks = "del", []int{k()}
		case x < 52:
			op.Op, op.Ks = "get", []int{k()}
		case x < 60:
			op.Op, op.Ks = "mput", []int{k(), k(), k()}
		case x < 66:
			op.Op, op.Ks = "mdel", []int{k(), k()}
		case x < 74:
			op.Op, op.Ks = "mget", []int{k(), k(), k()}
		case x < 82:
			op.Op = "iter"
		case x < 88:
			op.Op = "size"
		case x < 92:
			op.Op, op.H = "rebase", []string{"l1", "l2"}[r.Intn(2)]
			op.H2 = ss[r.Intn(len(ss))]
			if op.H == "l2" && r.Intn(3) == 0 {
				op.H2 = "l1"
			}
		case x < 95:
			op.Op, op.H = "setprev", []string{"l1", "l2"}[r.Intn(2)]
			op.H2 = ss[r.Intn(len(ss))]
			if op.H == "l2" && r.Intn(3) == 0 {
				op.H2 = "l1"
			}
		default:
			op.Op = "merge"
			op.H2 = hs[r.Intn(len(hs))]
			if op.H2 == op.H {
				op.Op = "iter"
				op.H2 = ""
			}
		}
		h.Ops = append(h.Ops, op)
	}
	return h
}
