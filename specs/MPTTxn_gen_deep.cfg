SPECIFICATION TSpec
CONSTANTS
  Paths <- TPaths2
  Values <- TValues2
  Children <- TChildren
  Depth = 10
  GenMode = TRUE
CHECK_DEADLOCK FALSE
