SPECIFICATION GSpec
CONSTANTS
  Paths <- GPathsS
  Values <- GValues
  Mode = "trans"
  Depth = 0
CHECK_DEADLOCK FALSE
