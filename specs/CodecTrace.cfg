SPECIFICATION TraceSpec
INVARIANT Report
CHECK_DEADLOCK FALSE
