SPECIFICATION CSpec
CONSTANTS
  MaxMuts = 2
  GenMode = TRUE
INVARIANTS EmitPlan
CHECK_DEADLOCK FALSE
