SPECIFICATION TraceSpec
CONSTANTS
  Keys = {0, 1, 2, 3, 4, 5}
  Mutant = "none"
  Topos = {}
  GenMode = FALSE
  Depth = 0
INVARIANT Report
CHECK_DEADLOCK FALSE
