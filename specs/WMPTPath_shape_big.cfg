SPECIFICATION PSpec
CONSTANTS
  NKeys = 0
  ReW = {}
  Vals = {}
  Wt = {}
  Depth = 0
  GenMode = TRUE
  PKeys = {0, 1, 2, 3, 4, 5, 6, 7}
  AKeys = {100}
  MaxOps = 2
  Uni = "shape"
  MaxInit = 3
  MaxReq = 2
  Bigs = {FALSE}
  InMemory = TRUE
  Levels = {0, 1, 2, 100, 101}
INVARIANTS EmitAll OnlyRequested
CHECK_DEADLOCK FALSE
