-------------------------------- MODULE WMPT --------------------------------
(***************************************************************************)
(* Weighted Merkle trie of 0chain/common (core/util/wmpt), content level   *)
(* (C09, C11, C13): the trie is a map  key -> [v: value, w: weight]  over  *)
(* keys that are totally ordered (the executor uses ranks 0..N-1 of fixed  *)
(* 32-byte keys sharing prefixes of many lengths).                         *)
(*                                                                         *)
(*   Total(m)      sum of the weights of the live keys                     *)
(*   Owner(m, b)   the key whose cumulative-weight interval in key order   *)
(*                 contains block number b (1 <= b <= Total(m))            *)
(*                                                                         *)
(* Commit (any collapse level), garbage collection, reload from storage,   *)
(* reading the root hash, observing owners and taking a checkpoint are     *)
(* STUTTERING steps on the content - that is the point: none of them may   *)
(* change what Weight(), GetBlockProof(b) and Root() report.  Rollback     *)
(* restores the checkpoint content.                                        *)
(***************************************************************************)
EXTENDS Naturals, Sequences, FiniteSets, TLC, Json

EmptyKV == [k \in {} |-> [v |-> "", w |-> 0]]
KPut(m, k, v, w) == [x \in (DOMAIN m) \cup {k} |-> IF x = k THEN [v |-> v, w |-> w] ELSE m[x]]
KDel(m, k) == [x \in (DOMAIN m) \ {k} |-> m[x]]

RECURSIVE SumW(_, _)
SumW(m, S) == IF S = {} THEN 0 ELSE LET k == CHOOSE x \in S : TRUE IN m[k].w + SumW(m, S \ {k})
Total(m) == SumW(m, DOMAIN m)
CumBefore(m, k) == SumW(m, {j \in DOMAIN m : j < k})
Owner(m, b) == CHOOSE k \in DOMAIN m : CumBefore(m, k) < b /\ b <= CumBefore(m, k) + m[k].w

\* required responses
UpdateResp(m, k, v, w) == [m |-> KPut(m, k, v, w), res |-> "ok"]
DeleteResp(m, k) == IF k \in DOMAIN m THEN [m |-> KDel(m, k), res |-> "ok", change |-> m[k].w]
                    ELSE [m |-> m, res |-> "notfound", change |-> 0]

---------------------------------------------------------------------------
(* design-level specification and behaviour generator                      *)
CONSTANTS NKeys, Vals, Wt, Depth, GenMode,
          ReW      \* weights a key's unchanged value can be re-written with ({} = never)
VARIABLES kv,      \* live content
          dur,     \* content of the last durable commit
          ck,      \* checkpoint content (SaveRoot)
          st,      \* [clean, saved, commits, gcs] bookkeeping of the usage protocol
          hist,
          last     \* name of the last action (observation only)

wvars == <<kv, dur, ck, st, hist, last>>
Keys == 0..(NKeys - 1)

Rec(op, k, v, level) == [op |-> op, k |-> k, v |-> v, level |-> level]
Log(r) == /\ last' = r.op
          /\ IF GenMode
             THEN /\ Len(hist) < Depth /\ hist' = Append(hist, r)
                  /\ (IF Len(hist') < Depth THEN TRUE ELSE PrintT(<<"VERIF_HIST", ToJson([ops |-> hist'])>>))
             ELSE hist' = hist

Init == /\ kv = EmptyKV /\ dur = EmptyKV /\ ck = EmptyKV
        /\ st = [clean |-> TRUE, saved |-> FALSE, mark |-> FALSE, commits |-> 0, gcs |-> 0] /\ hist = <<>> /\ last = "init"

Update(k, v) == /\ kv' = KPut(kv, k, v, Wt[v]) /\ st' = [st EXCEPT !.clean = FALSE]
                /\ Log(Rec("update", k, v, 0)) /\ UNCHANGED <<dur, ck>>
Delete(k)    == /\ kv' = DeleteResp(kv, k).m /\ st' = [st EXCEPT !.clean = FALSE]
                /\ Log(Rec("delete", k, "", 0)) /\ UNCHANGED <<dur, ck>>
\* the weight is an argument of an update, not a function of the value: the same value under another weight
\* (history token "<value>^<w>")
Reweigh(k, w) == /\ k \in DOMAIN kv /\ w # kv[k].w
                 /\ kv' = KPut(kv, k, kv[k].v, w) /\ st' = [st EXCEPT !.clean = FALSE]
                 /\ Log(Rec("update", k, kv[k].v \o "^" \o ToString(w), 0)) /\ UNCHANGED <<dur, ck>>
\* Garbage collection is staged: nodes superseded by a commit are queued, the first DeleteNodes pass after it arms the
\* queue, the second removes them from storage.  A checkpoint therefore survives one pass after the commit that
\* superseded it and is gone after the second (gcs counts the effective passes since the last effective commit).
Commit(lv)   == /\ dur' = kv /\ st' = [st EXCEPT !.clean = TRUE, !.commits = IF @ < 2 THEN @ + 1 ELSE 2,
                                                  !.gcs = IF st.clean THEN @ ELSE 0]
                /\ Log(Rec("commit", 0, "", lv)) /\ UNCHANGED <<kv, ck>>
GC           == /\ st' = [st EXCEPT !.gcs = IF st.clean /\ @ < 2 THEN @ + 1 ELSE @]    \* a pass on a dirty trie does nothing
                /\ Log(Rec("gc", 0, "", 0)) /\ UNCHANGED <<kv, dur, ck>>
\* reloading replaces the trie object; the checkpoint (kept in the object) is forgotten
Reload       == /\ st.clean /\ st' = [st EXCEPT !.saved = FALSE]
                /\ Log(Rec("reload", 0, "", 0)) /\ UNCHANGED <<kv, dur, ck>>
ReadRoot     == Log(Rec("readroot", 0, "", 0)) /\ UNCHANGED <<kv, dur, ck, st>>
Owners       == Log(Rec("owners", 0, "", 0)) /\ UNCHANGED <<kv, dur, ck, st>>
SaveRoot     == /\ st.clean /\ ck' = kv /\ st' = [st EXCEPT !.saved = TRUE, !.mark = FALSE, !.commits = 0]
                /\ Log(Rec("saveroot", 0, "", 0)) /\ UNCHANGED <<kv, dur>>
\* a checkpoint kept by the CALLER (root hash and weight of the clean trie) without telling the trie: only RollbackTrie can
\* return to it (history token: saveroot with level 1)
Mark         == /\ st.clean /\ ck' = kv /\ st' = [st EXCEPT !.saved = TRUE, !.mark = TRUE, !.commits = 0]
                /\ Log(Rec("saveroot", 0, "", 1)) /\ UNCHANGED <<kv, dur>>
Rollback(how) == /\ st.clean /\ st.saved /\ st.commits = 1 /\ st.gcs <= 1 /\ (st.mark => how = "rollbacktrie")
                 /\ kv' = ck /\ dur' = ck /\ st' = [st EXCEPT !.saved = FALSE]
                 /\ Log(Rec(how, 0, "", 0)) /\ UNCHANGED ck

Next ==
  \/ \E k \in Keys : (\E v \in Vals : Update(k, v)) \/ Delete(k) \/ (\E w \in ReW : Reweigh(k, w))
  \/ \E lv \in {0, 1, 3} : Commit(lv)
  \/ GC \/ Reload \/ ReadRoot \/ Owners \/ SaveRoot \/ Mark \/ Rollback("rollback") \/ Rollback("rollbacktrie")

\* the storage protocol only (updates, deletes, one commit level, staged garbage collection, checkpoint, rollback):
\* deep exhaustive generation over a tiny content space
NextGC ==
  \/ \E k \in Keys : (\E v \in Vals : Update(k, v)) \/ Delete(k)
  \/ Commit(0) \/ GC \/ SaveRoot \/ (~st.saved /\ Mark) \/ Rollback("rollback") \/ Rollback("rollbacktrie")
SpecGC == Init /\ [][NextGC]_wvars

Spec == Init /\ [][Next]_wvars

\* every block number in range has exactly one owner, owners are monotone in b, intervals have the key's weight
OwnerPartition ==
  \A b \in 1..Total(kv) :
     /\ Cardinality({k \in DOMAIN kv : CumBefore(kv, k) < b /\ b <= CumBefore(kv, k) + kv[k].w}) = 1
     /\ (b > 1 => Owner(kv, b - 1) <= Owner(kv, b))
OwnerWeights == \A k \in DOMAIN kv : Cardinality({b \in 1..Total(kv) : Owner(kv, b) = k}) = kv[k].w
\* commit / gc / reload / reads never change the content; rollback returns to the checkpoint
ContentStable ==
  [][(last' \in {"commit", "gc", "reload", "readroot", "owners", "saveroot"}) => kv' = kv]_wvars
View == <<kv, dur, ck, st>>
=============================================================================
