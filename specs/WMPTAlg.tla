------------------------------- MODULE WMPTAlg -------------------------------
(***************************************************************************)
(* Term-level transcription of the weighted trie's insert and delete       *)
(* (core/util/wmpt/trie.go: Update, insert, Delete, delete incl. the       *)
(* branch reduction and the short-node merge) as a REFINEMENT of the       *)
(* content map  key -> [v, w]  of WMPT.tla:                                *)
(*                                                                         *)
(*    trie = WCanon(content)   in every reachable state: the shape (and    *)
(*           with it the root hash) is a function of the live              *)
(*           (key, value, weight) set, whatever the history (C09);         *)
(*    every branch carries the sum of the weights below it, so the total   *)
(*           weight is the sum of the weights of the live keys (C09);      *)
(*    the result of every operation (weight change, "not found") is the    *)
(*           content map's.                                                *)
(*                                                                         *)
(* Hashing, dirty flags, hash references / storage and the garbage-        *)
(* collection bookkeeping are abstracted away (WMPTGC.tla, WMPTTrace.tla). *)
(* Keys are nibble sequences of one fixed length, as in the code (64).     *)
(*                                                                         *)
(* Variant = "fixed"         the code as it stands in /repo                *)
(*           "orig-reweigh"  before fix 7100c61 (an update with the stored *)
(*                           value is a no-op whatever its weight)         *)
(*           "nibblezero"    the reduction skips an only child at nibble 0 *)
(*                           (seeded change C09-f)                         *)
(*           "nomerge"       a short node is not merged with a short node  *)
(*                           that a delete below it returns                *)
(* The three other variants are design mutants: TLC refutes each.          *)
(***************************************************************************)
EXTENDS WCanon, TLC

CONSTANTS Keys, Vals, Wts, Variant

VARIABLES content,   \* key -> [v, w]
          trie,      \* term
          last       \* <<result of the algorithm, result required by the content map>>

wvars == <<content, trie, last>>

Nil == WNil
Drop(s, n) == WDrop(s, n)
Take(s, n) == WTake(s, n)
KidPut(kids, c, k) == [x \in (DOMAIN kids) \cup {c} |-> IF x = c THEN k ELSE kids[x]]
KidDel(kids, c) == [x \in (DOMAIN kids) \ {c} |-> kids[x]]

RECURSIVE Lcp(_, _, _)
Lcp(a, b, i) == IF i > Len(a) \/ i > Len(b) \/ a[i] # b[i] THEN i - 1 ELSE Lcp(a, b, i + 1)
CommonPrefix(a, b) == Lcp(a, b, 1)

\* Weight() of a node: value: its weight; short node: its child's; branch: the field maintained by insert / delete
RECURSIVE W(_)
W(n) == CASE n.t = "V" -> n.w [] n.t = "S" -> W(n.kid) [] n.t = "B" -> n.w [] OTHER -> 0

---------------------------------------------------------------------------
(* canonical term of a content: WCanon.tla *)
SumW(S) == WSumW(S)
WCanon(c) == WCanonOf({<<k, c[k].v, c[k].w>> : k \in DOMAIN c})

---------------------------------------------------------------------------
(* insert(node, key, value): new node and weight change *)
R(n, ch) == [n |-> n, ch |-> ch]
\* insert(nil, rest, sub): an existing subtree re-attached below a new branch
Wrap(rest, sub) == IF rest = <<>> THEN sub ELSE SN(rest, sub)

RECURSIVE Ins(_, _, _, _)
Ins(n, key, v, w) ==
  IF key = <<>>
  THEN IF n.t = "V"
       THEN IF n.v = v /\ (Variant = "orig-reweigh" \/ n.w = w) THEN R(n, 0)
            ELSE R(VN(v, w), w - n.w)
       ELSE R(VN(v, w), w)
  ELSE CASE n.t = "B" ->
              LET c == key[1]
                  sub == Ins(IF c \in DOMAIN n.kids THEN n.kids[c] ELSE Nil, Drop(key, 1), v, w)
              IN  R(BN(n.w + sub.ch, KidPut(n.kids, c, sub.n)), sub.ch)
         [] n.t = "S" ->
              LET p == CommonPrefix(n.key, key) IN
              IF p = Len(n.key)
              THEN LET sub == Ins(n.kid, Drop(key, p), v, w) IN R(SN(n.key, sub.n), sub.ch)
              ELSE LET branch == BN(W(n) + w,
                                    KidPut(KidPut([x \in {} |-> Nil], n.key[p + 1], Wrap(Drop(n.key, p + 1), n.kid)),
                                           key[p + 1], Wrap(Drop(key, p + 1), VN(v, w))))
                   IN  R(IF p = 0 THEN branch ELSE SN(Take(key, p), branch), w)
         [] OTHER -> R(SN(key, VN(v, w)), w)       \* nil / empty node

---------------------------------------------------------------------------
(* delete(node, key): new node (Nil = removed), removed weight, result *)
D(n, ch, res) == [n |-> n, ch |-> ch, res |-> res]
RECURSIVE Del(_, _)
Del(n, key) ==
  CASE n.t = "S" ->
         LET p == CommonPrefix(n.key, key) IN
         IF p < Len(n.key) THEN D(n, 0, "notfound")
         ELSE IF p = Len(key) THEN D(Nil, W(n), "ok")
         ELSE LET sub == Del(n.kid, Drop(key, Len(n.key))) IN
              IF sub.res # "ok" THEN D(n, 0, sub.res)
              ELSE IF sub.n.t = "S" /\ Variant # "nomerge"
                   THEN D(SN(n.key \o sub.n.key, sub.n.kid), sub.ch, "ok")
                   ELSE D(SN(n.key, sub.n), sub.ch, "ok")
    [] n.t = "B" ->
         LET c == key[1] IN
         IF c \notin DOMAIN n.kids THEN D(n, 0, "notfound")
         ELSE LET sub == Del(n.kids[c], Drop(key, 1)) IN
              IF sub.res # "ok" THEN D(n, 0, sub.res)
              ELSE IF sub.n # Nil THEN D(BN(n.w - sub.ch, KidPut(n.kids, c, sub.n)), sub.ch, "ok")
              ELSE LET kids2 == KidDel(n.kids, c)
                       only == IF Cardinality(DOMAIN kids2) = 1 THEN CHOOSE x \in DOMAIN kids2 : TRUE ELSE -1
                   IN  IF only >= 0 /\ ~(Variant = "nibblezero" /\ only = 0)
                       THEN LET cn == kids2[only] IN
                            IF cn.t = "S" THEN D(SN(<<only>> \o cn.key, cn.kid), sub.ch, "ok")
                            ELSE D(SN(<<only>>, cn), sub.ch, "ok")
                       ELSE D(BN(n.w - sub.ch, kids2), sub.ch, "ok")
    [] n.t = "V" -> D(Nil, n.w, "ok")
    [] OTHER -> D(n, 0, "notfound")

---------------------------------------------------------------------------
KPut(m, k, v, w) == [x \in (DOMAIN m) \cup {k} |-> IF x = k THEN [v |-> v, w |-> w] ELSE m[x]]
KDel(m, k) == [x \in (DOMAIN m) \ {k} |-> m[x]]
Total(m) == SumW({<<k, m[k].v, m[k].w>> : k \in DOMAIN m})

Init == content = [k \in {} |-> 0] /\ trie = Nil /\ last = <<"ok", "ok">>

Update(k, v, w) ==
  LET r == Ins(trie, k, v, w)
      old == IF k \in DOMAIN content THEN content[k].w ELSE 0
  IN  /\ content' = KPut(content, k, v, w)
      /\ trie' = r.n
      /\ last' = <<r.ch, w - old>>

Delete(k) ==
  LET r == Del(trie, k) IN
  /\ content' = IF k \in DOMAIN content THEN KDel(content, k) ELSE content
  /\ trie' = IF r.res = "ok" THEN r.n ELSE trie
  /\ last' = <<<<r.res, r.ch>>, IF k \in DOMAIN content THEN <<"ok", content[k].w>> ELSE <<"notfound", 0>>>>

Next == \E k \in Keys : (\E v \in Vals, w \in Wts : Update(k, v, w)) \/ Delete(k)
Spec == Init /\ [][Next]_wvars

\* the algorithm keeps the canonical term of the content (shape and the weight carried by every branch) ...
Refines == trie = WCanon(content)
\* ... its total weight is the sum of the weights of the live keys ...
TotalOK == W(trie) = Total(content)
\* ... and every operation reports what the content map requires
ResultOK == last[1] = last[2]
=============================================================================
