SPECIFICATION TSpec
CONSTANTS
  Paths <- TPaths
  Values <- TValues
  Children <- TChildren
  Depth = 4
  GenMode = TRUE
CHECK_DEADLOCK FALSE
