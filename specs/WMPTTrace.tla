----------------------------- MODULE WMPTTrace -----------------------------
(***************************************************************************)
(* Trace validation of the weighted trie (C09, C11, C13) against WMPT.tla. *)
(* The storage adapter of the executor reports one event per storage write *)
(* element (single put/delete, or one atomic batch), with the graph rows   *)
(* (id, ids a loader must fetch next) parsed by the bridge from the stored *)
(* bytes; resolvability is computed here.                                  *)
(*                                                                         *)
(* Deviation flags (ghost predicates naming the preconditions of recorded  *)
(* known findings; sticky for the rest of the trace):                      *)
(*   SharedContent     two live keys held the same value at some point     *)
(*                     (content-addressed nodes shared between positions)  *)
(*   ReadWhileDirty    the root hash / a proof was read while uncommitted  *)
(*                     changes existed                                     *)
(*   RecreateIdentical within one commit window a key got back a value it  *)
(*                     had earlier in that window                          *)
(***************************************************************************)
EXTENDS WMPT, WCanon, IOUtils

Trace == ndJsonDeserialize(IOEnv.TRACE)

VARIABLES l, bad, nbad, ntr,
          store,      \* ids in storage
          needs,      \* id -> set of ids a loader fetches next
          durRoot,    \* root id of the last durable commit
          ckRoot,     \* root id of the checkpoint
          written,    \* ids written by commit batches since the checkpoint
          batch,      \* ids newly added to storage by writes since the last commitbegin
          dirty,      \* uncommitted changes exist
          seen,       \* key -> values the key had in the current commit window
          roots,      \* set of <<content, root id>> observed (history independence)
          dev,        \* deviation flags raised so far in this trace
          rb,         \* the last durable state was established by a rollback (no commit since)
          emptyId, mode

tvars == <<kv, dur, ck, st, hist, last, l, bad, nbad, ntr, store, needs, durRoot, ckRoot, written, batch, dirty, seen, roots, dev, rb, emptyId, mode>>

MaxBad == 40
\* deviations are kept per class (operation, failed checks, deviation flags): a flood of one class never hides another
KeepBad(bd, op, fl, dv) == Cardinality({b \in bd : b[3] = op /\ b[4] = fl /\ b[5] = dv}) < 6 /\ Cardinality(bd) < 40 * MaxBad
ToSet(s) == {s[i] : i \in DOMAIN s}
Flag(cond, name) == IF cond THEN {} ELSE {name}
EmptyFn == [x \in {} |-> {}]
FnPut(f, k, v) == [x \in (DOMAIN f) \cup {k} |-> IF x = k THEN v ELSE f[x]]

AddRows(g, rows) ==
  LET R == ToSet(rows) IN
  [x \in (DOMAIN g) \cup {r[1] : r \in R} |->
     IF \E r \in R : r[1] = x THEN ToSet((CHOOSE r \in R : r[1] = x)[2]) ELSE g[x]]

RECURSIVE Closure(_, _, _)
Closure(g, frontier, acc) ==
  IF frontier = {} THEN acc
  ELSE LET nxt == UNION {IF x \in DOMAIN g THEN g[x] ELSE {} : x \in frontier}
       IN  Closure(g, nxt \ (acc \cup frontier), acc \cup frontier)
Need(g, root) == IF root = emptyId THEN {} ELSE Closure(g, {root}, {})
Resolvable(g, root, s) == Need(g, root) \subseteq s

\* owners list [b, keyIdx, val, w, verified, status] against content m
OwnersOK(m, total, owners) ==
  /\ total = Total(m)
  /\ Len(owners) = total
  /\ \A o \in ToSet(owners) :
        /\ o[6] = "ok" /\ o[1] \in 1..total
        /\ o[2] = Owner(m, o[1]) /\ o[3] = m[o[2]].v /\ o[4] = m[o[2]].w /\ o[5] = TRUE

\* key nibbles of the running trace (reset event), kept in the otherwise unused generator variable
Nibs == hist
\* a stored trie as rendered by the executor -> term
RECURSIVE ConvW(_)
ConvW(x) ==
  CASE x[1] = "V" -> VN(x[2], x[3])
    [] x[1] = "S" -> SN(x[2], ConvW(x[3]))
    [] x[1] = "B" -> BN(x[2], [c \in {p[1] : p \in ToSet(x[3])} |-> ConvW((CHOOSE p \in ToSet(x[3]) : p[1] = c)[2])])
    [] OTHER -> [t |-> x[1]]

SeenOf(k) == IF k \in DOMAIN seen THEN seen[k] ELSE {}
CurVal(k) == IF k \in DOMAIN kv THEN kv[k].v ELSE ""

\* deviation flags raised by an update of key k to value v (v = "" for a removal)
DevOfWrite(k, v) ==
     (IF v # "" /\ \E j \in DOMAIN kv : j # k /\ kv[j].v = v THEN {"SharedContent"} ELSE {})
  \cup (IF v # "" /\ v \in SeenOf(k) /\ CurVal(k) # v THEN {"RecreateIdentical"} ELSE {})

Base == [kv |-> kv, dur |-> dur, ck |-> ck, store |-> store, needs |-> needs, durRoot |-> durRoot, ckRoot |-> ckRoot,
         written |-> written, batch |-> batch, dirty |-> dirty, seen |-> seen, roots |-> roots, dev |-> dev, rb |-> rb, mode |-> mode,
         emptyId |-> emptyId, f |-> {}]

RootFlags(m, root) ==
  Flag(\A pr \in roots : (pr[1] = m) = (pr[2] = root), "rootfn")

Step(e) ==
  CASE e.op = "reset" ->
         [Base EXCEPT !.kv = EmptyKV, !.dur = EmptyKV, !.ck = EmptyKV, !.store = {}, !.needs = EmptyFn, !.durRoot = e.empty,
                      !.ckRoot = e.empty, !.written = {}, !.batch = {}, !.dirty = FALSE, !.seen = EmptyFn, !.roots = {},
                      !.dev = {}, !.rb = FALSE, !.mode = "idle", !.emptyId = e.empty]
    [] e.op \in {"update", "updel", "delete"} ->
         LET r == IF e.op = "update" THEN UpdateResp(kv, e.k, e.v, e.w) ELSE DeleteResp(kv, e.k)
             v == IF e.op = "update" THEN e.v ELSE ""
         IN  [Base EXCEPT !.kv = r.m, !.dirty = dirty \/ r.m # kv,
                          !.seen = FnPut(seen, e.k, SeenOf(e.k) \cup {CurVal(e.k)}),
                          !.dev = dev \cup DevOfWrite(e.k, v),
                          !.f = Flag(e.res = r.res, "res") \cup Flag(e.weight = Total(r.m), "weight")
                                \cup Flag(e.op # "delete" \/ e.change = r.change, "change")]
    [] e.op = "commitbegin" -> [Base EXCEPT !.batch = {}, !.mode = "commit"]
    [] e.op = "w" ->
         LET st2 == (store \cup ToSet(e.puts)) \ ToSet(e.dels)
             g2 == AddRows(needs, e.rows)
         IN  [Base EXCEPT !.store = st2, !.needs = g2, !.batch = batch \cup (ToSet(e.puts) \ store),   \* ids this write added to storage
                          !.f = Flag(e.keysOK, "storekeys")
                                \* every state is a crash point: the last durably committed root stays resolvable
                                \cup Flag(mode = "rollback" \/ Resolvable(g2, durRoot, st2), "durable")
                                \* ... which after a rollback is the checkpoint (C13: also after later DeleteNodes passes)
                                \cup Flag(~rb \/ mode = "rollback" \/ Resolvable(g2, durRoot, st2), "rollbackdurable")]
    [] e.op = "committed" ->
         [Base EXCEPT !.dur = kv, !.durRoot = e.root, !.dirty = FALSE, !.mode = "idle", !.rb = FALSE,
                      !.written = written \cup batch,
                      !.seen = [k \in DOMAIN kv |-> {kv[k].v}],
                      !.roots = roots \cup {<<kv, e.root>>},
                      !.f = Flag(e.res = "ok", "res") \cup Flag(e.weight = Total(kv), "weight")
                            \cup Flag(Resolvable(needs, e.root, store), "commitincomplete")
                            \cup RootFlags(kv, e.root)]
    [] e.op = "reopen" ->
         LET good == e.ok /\ e.rootOK /\ OwnersOK(dur, e.total, e.owners) IN
         [Base EXCEPT !.f = Flag(good, IF e.after = "rollback" THEN "rollbackreopen" ELSE "reopen")
                            \cup Flag(good \/ ~rb, "rollbackreopen")
                            \* the stored trie has the canonical shape of the durable content (branch weights included)
                            \cup Flag(~("shape" \in DOMAIN e) \/ ConvW(e.shape) = WCanonOf({<<Nibs[k + 1], dur[k].v, dur[k].w>> : k \in DOMAIN dur}),
                                       "wshape")]
    [] e.op = "gcbegin" -> [Base EXCEPT !.mode = "gc"]
    [] e.op = "gcend" -> [Base EXCEPT !.mode = "idle", !.f = Flag(e.res = "ok", "res")]
    [] e.op = "reload" -> [Base EXCEPT !.kv = dur, !.dirty = FALSE, !.f = Flag(e.weight = Total(dur), "weight")]
    [] e.op = "readroot" ->
         [Base EXCEPT !.dev = IF dirty THEN dev \cup {"ReadWhileDirty"} ELSE dev,
                      !.roots = roots \cup {<<kv, e.root>>},
                      !.f = Flag(e.res = "ok", "res") \cup RootFlags(kv, e.root)]
    [] e.op = "owners" ->
         [Base EXCEPT !.dev = IF dirty THEN dev \cup {"ReadWhileDirty"} ELSE dev,
                      !.f = Flag(e.ok /\ OwnersOK(kv, e.total, e.owners), "owner")
                            \cup Flag(e.rootOK, "root") \cup Flag(e.above, "range")]
    [] e.op = "saveroot" ->
         [Base EXCEPT !.ck = kv, !.ckRoot = e.root, !.written = {},
                      !.dev = IF dirty THEN dev \cup {"ReadWhileDirty"} ELSE dev,
                      !.f = Flag(e.res = "ok", "res") \cup Flag(e.weight = Total(kv), "weight")]
    [] e.op = "rollbackbegin" -> [Base EXCEPT !.mode = "rollback"]
    [] e.op = "rolledback" ->
         [Base EXCEPT !.kv = ck, !.dur = ck, !.durRoot = ckRoot, !.dirty = FALSE, !.mode = "idle", !.rb = TRUE,
                      !.seen = [k \in DOMAIN ck |-> {ck[k].v}],
                      !.f = Flag(e.res = "ok", "res")
                            \cup Flag(e.root = ckRoot, "rollbackroot") \cup Flag(e.weight = Total(ck), "rollbackweight")
                            \* every node of the checkpoint is still resolvable ...
                            \cup Flag(Resolvable(needs, ckRoot, store), "rollbackdamage")
                            \* ... and the nodes only the rolled-back commit created are gone
                            \cup Flag(store \cap (written \ Need(needs, ckRoot)) = {}, "rollbackleft")]
    [] OTHER -> [Base EXCEPT !.f = {"unknown-op"}]

TraceInit ==
  /\ kv = EmptyKV /\ dur = EmptyKV /\ ck = EmptyKV /\ st = [clean |-> TRUE, saved |-> FALSE, mark |-> FALSE, commits |-> 0, gcs |-> 0]
  /\ hist = <<>> /\ last = "init"
  /\ l = 1 /\ bad = {} /\ nbad = 0 /\ ntr = 0
  /\ store = {} /\ needs = EmptyFn /\ durRoot = 0 /\ ckRoot = 0 /\ written = {} /\ batch = {} /\ dirty = FALSE
  /\ seen = EmptyFn /\ roots = {} /\ dev = {} /\ rb = FALSE /\ emptyId = 0 /\ mode = "idle"

TraceNext ==
  /\ l <= Len(Trace)
  /\ LET e == Trace[l]
         r == Step(e)
         f == r.f
     IN  /\ kv' = r.kv /\ dur' = r.dur /\ ck' = r.ck /\ store' = r.store /\ needs' = r.needs /\ durRoot' = r.durRoot
         /\ ckRoot' = r.ckRoot /\ written' = r.written /\ batch' = r.batch /\ dirty' = r.dirty /\ seen' = r.seen
         /\ roots' = r.roots /\ dev' = r.dev /\ rb' = r.rb /\ mode' = r.mode /\ emptyId' = r.emptyId
         /\ hist' = IF e.op = "reset" /\ "nibs" \in DOMAIN e THEN e.nibs ELSE hist
         /\ UNCHANGED <<st, last>>
         /\ l' = l + 1
         /\ ntr' = IF e.op = "reset" THEN ntr + 1 ELSE ntr
         /\ nbad' = IF f = {} THEN nbad ELSE nbad + 1
         /\ bad' = IF f = {} \/ ~KeepBad(bad, e.op, f, r.dev) THEN bad ELSE bad \cup {<<e.tid, l, e.op, f, r.dev>>}

TraceSpec == TraceInit /\ [][TraceNext]_tvars
Report == l <= Len(Trace) \/ PrintT(<<"VERIF_RESULT", l - 1, ntr, nbad, bad>>)
=============================================================================
