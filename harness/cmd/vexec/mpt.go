package main

import (
	"math/rand"
	"sort"

	"verifharness/exec"
	"verifharness/tr"
)

func init() { components["mpt"] = runMPT }

var mptConfigs = []exec.MPTConfig{
	{Store: "mem", Version: 1},
	{Store: "pndb", Version: 1},
	{Store: "level", Version: 1},
	{Store: "levelp", Version: 1},
	{Store: "level", Version: 1, InitVer: 1, Init: [][2]string{{"0000", "a"}, {"0001", "b"}, {"01", "a"}}},
	{Store: "level", Version: 3, InitVer: 2, Init: [][2]string{{"00", "a"}, {"0011", "b"}, {"1000", "a"}}},
	{Store: "levelp", Version: 1, InitVer: 1, Init: [][2]string{{"", "a"}, {"0100", "b"}, {"0101", "b"}, {"10", "a"}}},
	{Store: "mem", Version: 7},
	{Store: "level", Version: 1 << 40},
	{Store: "pndb", Version: 1<<32 + 5},
	// lower content of an older version with branches of exactly two children (leaf + leaf, leaf + extension, leaf + branch)
	{Store: "level", Version: 5, InitVer: 2, Init: [][2]string{{"0a10", "a"}, {"0a1f", "b"}, {"0b", "c"}}},
	{Store: "level", Version: 4, InitVer: 1, Init: [][2]string{{"10", "a"}, {"2000", "b"}, {"2011", "c"}}},
	{Store: "levelp", Version: 6, InitVer: 3, Init: [][2]string{{"0000", "a"}, {"0011", "b"}, {"01", "a"}}},
	// straight on the persistent store with a fresh trie object (cold node cache) per operation: every node an operation
	// touches is decoded from its stored record
	{Store: "pndb", Version: 2, Cold: true},
}

func runMPT(args []string) (map[string]any, error) {
	c := newCommon("mpt")
	maxOps := c.fs.Int("maxops", 25, "max ops per generated history")
	allCfg := c.fs.Bool("allcfg", false, "run every history on every store configuration")
	shapeEvery := c.fs.Int("shapeevery", 1, "log the parsed shape every k-th event")
	cfgIdx := c.fs.Int("cfgidx", -1, "force one store configuration (replay)")
	c.fs.Parse(args)
	w, err := tr.New(*c.out, *c.shards)
	if err != nil {
		return nil, err
	}
	in := tr.NewInterner()
	st := &exec.MPTStats{Contents: map[string]bool{}, RootGroups: map[string]map[int]bool{}, Classes: map[string]bool{}}
	tid := 0
	run := func(h exec.MHist, idx int, se int) {
		if *cfgIdx >= 0 {
			tid++
			exec.RunMPTHistory(w, in, st, tid, *cfgIdx, mptConfigs[*cfgIdx%len(mptConfigs)], h, se)
		} else if *allCfg {
			for ci, cfg := range mptConfigs {
				tid++
				exec.RunMPTHistory(w, in, st, tid, ci, cfg, h, se)
			}
		} else {
			tid++
			exec.RunMPTHistory(w, in, st, tid, idx%len(mptConfigs), mptConfigs[idx%len(mptConfigs)], h, se)
		}
	}
	nTLC := 0
	if *c.hist != "" {
		hs, err := exec.ReadHistories(*c.hist)
		if err != nil {
			return nil, err
		}
		for i, h := range hs {
			run(h, i, 1)
		}
		nTLC = len(hs)
	}
	r := rand.New(rand.NewSource(*c.seed))
	if *c.n > 0 {
		exec.MaxValBudget = 4
	}
	for i := 0; i < *c.n; i++ {
		idx := r.Intn(1000)
		if exec.MaxValBudget > 0 {
			// the histories with values at the size limit run where stored records are read back
			idx = []int{13, 12, 1, 13}[i%4]
		}
		run(exec.MHist{Ops: exec.GenMPTHistory(r, *maxOps)}, idx, *shapeEvery)
	}
	// large-scope store scenarios (one multi-put of several hundred nodes): 1 per 500 random histories, at least 3
	nbulk := 3 + *c.n/500
	for i := 0; i < nbulk; i++ {
		tid++
		exec.RunMPTBulk(w, st, tid, r)
	}
	exec.EmitRootGroups(w, st, 0)
	if err := w.Close(); err != nil {
		return nil, err
	}
	classes := []string{}
	for k := range st.Classes {
		classes = append(classes, k)
	}
	sort.Strings(classes)
	return map[string]any{
		"traces": st.Traces, "events": st.Events + 1, "tlc_histories": nTLC, "go_histories": *c.n, "bulk_scenarios": nbulk,
		"distinct_contents": len(st.Contents), "root_groups": len(st.RootGroups), "distinct_roots": in.Len(),
		"node_classes": classes, "panics": st.Panics, "samples": w.Samples, "shard_events": w.Events,
	}, nil
}
