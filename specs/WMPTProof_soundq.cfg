SPECIFICATION PSpec
CONSTANTS
  Tries <- MCTriesQ
  MaxEdits = 2
  AllowImitate = FALSE
  AllowReweight = FALSE
  GenMode = FALSE
INVARIANTS Complete Sound
CHECK_DEADLOCK FALSE
