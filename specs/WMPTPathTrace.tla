---------------------------- MODULE WMPTPathTrace ----------------------------
(* Trace validation of path export / import / mirrored updates (C12).        *)
EXTENDS WMPT, IOUtils

Trace == ndJsonDeserialize(IOEnv.TRACE)
VARIABLES l, bad, nbad, ntr, roots
tvars == <<kv, dur, ck, st, hist, last, l, bad, nbad, ntr, roots>>
MaxBad == 40
\* deviations are kept per class (operation, failed checks, deviation flags): a flood of one class never hides another
KeepBad(bd, op, fl, dv) == Cardinality({b \in bd : b[3] = op /\ b[4] = fl /\ b[5] = dv}) < 6 /\ Cardinality(bd) < 40 * MaxBad
ToSet(s) == {s[i] : i \in DOMAIN s}
Flag(cond, name) == IF cond THEN {} ELSE {name}

OwnersOK(m, total, owners) ==
  /\ total = Total(m) /\ Len(owners) = total
  /\ \A o \in ToSet(owners) :
        /\ o[6] = "ok" /\ o[1] \in 1..total
        /\ o[2] = Owner(m, o[1]) /\ o[3] = m[o[2]].v /\ o[4] = m[o[2]].w /\ o[5] = TRUE

RootFn(m, root) == \A pr \in roots : (pr[1] = m) = (pr[2] = root)

Step(e) ==
  CASE e.op = "reset" ->
         [kv |-> [k \in {x[1] : x \in ToSet(e.init)} |->
                    LET x == CHOOSE y \in ToSet(e.init) : y[1] = k IN [v |-> x[2], w |-> x[3]]],
          roots |-> {}, f |-> {}]
    [] e.op = "export" ->
         [kv |-> kv, roots |-> roots \cup {<<kv, e.froot>>},
          f |-> Flag(e.res = "ok" /\ e.import = "ok", "export")
                \cup Flag(e.import # "ok" \/ e.froot = e.proot, "importroot")
                \cup Flag(e.import # "ok" \/ (e.fweight = Total(kv) /\ e.pweight = Total(kv)), "importweight")]
    [] e.op \in {"update", "delete"} ->
         LET r == IF e.op = "update" THEN UpdateResp(kv, e.k, e.v, e.w) ELSE DeleteResp(kv, e.k) IN
         [kv |-> r.m, roots |-> roots \cup {<<r.m, e.froot>>},
          f |-> Flag(e.fres = r.res, "fullres") \cup Flag(e.pres = r.res, "mirrorres")
                \cup Flag(e.froot = e.proot, "mirrorroot")
                \cup Flag(e.fweight = Total(r.m), "fullweight") \cup Flag(e.pweight = Total(r.m), "mirrorweight")
                \cup Flag(RootFn(r.m, e.froot), "rootfn")]
    [] e.op = "final" ->
         [kv |-> kv, roots |-> roots, f |-> Flag(e.ok /\ OwnersOK(kv, e.total, e.owners) /\ e.rootOK, "finalroot")]
    [] OTHER -> [kv |-> kv, roots |-> roots, f |-> {"unknown-op"}]

TraceInit == /\ kv = EmptyKV /\ dur = EmptyKV /\ ck = EmptyKV /\ st = [clean |-> TRUE, saved |-> FALSE, mark |-> FALSE, commits |-> 0, gcs |-> 0]
             /\ hist = <<>> /\ last = "init" /\ l = 1 /\ bad = {} /\ nbad = 0 /\ ntr = 0 /\ roots = {}
TraceNext ==
  /\ l <= Len(Trace)
  /\ LET e == Trace[l]
         r == Step(e)
     IN  /\ kv' = r.kv /\ roots' = r.roots /\ UNCHANGED <<dur, ck, st, hist, last>>
         /\ l' = l + 1 /\ ntr' = IF e.op = "reset" THEN ntr + 1 ELSE ntr
         /\ nbad' = IF r.f = {} THEN nbad ELSE nbad + 1
         /\ bad' = IF r.f = {} \/ ~KeepBad(bad, e.op, r.f, {}) THEN bad ELSE bad \cup {<<e.tid, l, e.op, r.f, {}>>}
TraceSpec == TraceInit /\ [][TraceNext]_tvars
Report == l <= Len(Trace) \/ PrintT(<<"VERIF_RESULT", l - 1, ntr, nbad, bad>>)
=============================================================================
