package main

import (
	"bufio"
	"bytes"
	"encoding/json"
	"fmt"
	"math/rand"
	"os"
	"strings"

	"verifharness/exec"
	"verifharness/tr"
)

func init() { components["wmpt"] = runWMPT }

func runWMPT(args []string) (map[string]any, error) {
	c := newCommon("wmpt")
	c.fs.Parse(args)
	w, err := tr.New(*c.out, *c.shards)
	if err != nil {
		return nil, err
	}
	in := tr.NewInterner()
	st := &exec.WStats{Distinct: map[string]bool{}, Modes: map[string]int{}}
	tid, nTLC := 0, 0
	if *c.hist != "" {
		f, err := os.Open(*c.hist)
		if err != nil {
			return nil, err
		}
		sc := bufio.NewScanner(f)
		sc.Buffer(make([]byte, 1<<20), 1<<26)
		for sc.Scan() {
			line := bytes.TrimSpace(sc.Bytes())
			if len(line) == 0 {
				continue
			}
			var h exec.WHist
			if err := json.Unmarshal(line, &h); err != nil {
				return nil, err
			}
			tid++
			nTLC++
			if h.Mode == "replay" {
				// a saved counterexample: tokens, universe and scale are final
				exec.RunWMPT(w, in, st, tid, h)
				continue
			}
			if nTLC%3 != 0 {
				// make values distinct per key (no content shared between positions)
				h.Mode = "tlc-distinct"
				for i := range h.Ops {
					if h.Ops[i].Op == "update" {
						// "<value>^<w>" (the same value under another weight): the explicit weight stays at the end
						base, wsuf := h.Ops[i].V, ""
						if j := strings.LastIndexByte(base, '^'); j >= 0 {
							base, wsuf = base[:j], base[j:]
						}
						base = fmt.Sprintf("%s#%d", base, h.Ops[i].K)
						if nTLC%4 == 1 {
							base += exec.LongPad(h.Ops[i].K)
						}
						h.Ops[i].V = base + wsuf
					}
				}
			} else {
				h.Mode = "tlc-shared"
			}
			// rotate the TLC behaviours over the key universes (ranks keep their order)
			switch (nTLC / 3) % 5 {
			case 1:
				h.Uni, h.Sub = "head", exec.SubFor(int64(tid), 10)
			case 2:
				h.Uni, h.Sub = "tail", exec.SubFor(int64(tid), 10)
			case 3:
				h.Uni, h.Sub = "wideh", exec.SubFor(int64(tid), 10)
			case 4:
				h.Uni, h.Sub = "widet", exec.SubFor(int64(tid), 10)
			}
			exec.RunWMPT(w, in, st, tid, h)
		}
		f.Close()
	}
	r := rand.New(rand.NewSource(*c.seed))
	modes := []string{"plain", "plain", "plain", "plain", "shared", "dirty", "again", "all"}
	for i := 0; i < *c.n; i++ {
		tid++
		mode := modes[i%len(modes)]
		if i%4 == 3 {
			exec.RunWMPT(w, in, st, tid, exec.GenWMPTReturn(r))
		} else if i%3 == 2 {
			rm := mode
			if rm != "plain" && rm != "shared" {
				rm = "again"
			}
			exec.RunWMPT(w, in, st, tid, exec.GenWMPTRollback(r, rm))
		} else {
			exec.RunWMPT(w, in, st, tid, exec.GenWMPT(r, mode))
		}
	}
	if err := w.Close(); err != nil {
		return nil, err
	}
	return map[string]any{"traces": st.Traces, "events": st.Events, "tlc_histories": nTLC, "go_histories": *c.n, "panics": st.Panics,
		"commits": st.Commits, "gcs": st.GCs, "owner_observations": st.Owners, "rollbacks": st.Rollbacks, "copyroot_forks": st.Forks,
		"distinct_signatures": len(st.Distinct), "generator_modes": st.Modes, "distinct_nodes": in.Len(), "samples": w.Samples}, nil
}
