SPECIFICATION GSpec
CONSTANTS
  Paths <- GPathsT
  Values <- GValues
  Mode = "hist"
  Depth = 4
CHECK_DEADLOCK FALSE
