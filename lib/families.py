"""Per-property decision procedures.  Every verdict comes from real-code
behaviour (ndjson traces recorded by vexec) judged by a TLA+ trace
specification run under TLC."""
import os, sys, json, time, glob, shutil
import vlib
from vlib import Infra, log

TIERS = ("quick", "thorough")


class Result:
    def __init__(self):
        self.states = 0
        self.transitions = 0
        self.traces = 0
        self.events = 0
        self.bad = []          # (shard, entry)
        self.summary = {}
        self.samples = []
        self.extra = {}


# ----------------------------------------------------------------------------- generic deterministic pipeline

def run_family(fam, prop, tier, seed, d=None, replay_ops=None):
    """design checks -> TLC-generated histories -> executor -> trace validation."""
    t0 = time.time()
    res = Result()
    race = fam.get("race", False)
    binary = vlib.build_vexec(race=race)
    d = d or vlib.scratch(prop + "_" + tier)
    # 1. design-level model checking of the specification itself
    for (mod, cfg) in fam.get("design", {}).get(tier, []):
        s, t = vlib.design_check(d, mod, cfg, timeout=fam.get("design_timeout", 900))
        log("design %s/%s: %d distinct states, %d transitions" % (mod, cfg, s, t))
        res.states += s
        res.transitions += t
    for (mod, cfg, inv) in fam.get("mutants", {}).get(tier, []):
        s, t = vlib.design_check(d, mod, cfg, expect_violation=inv, timeout=300)
        log("design mutant %s/%s violates %s as expected (anti-vacuity)" % (mod, cfg, inv))
        res.extra.setdefault("design_mutants_caught", []).append(cfg)
    # 2. behaviours of the specification emitted by TLC (model-based test generation)
    hist = None
    nh = 0
    if replay_ops is not None:
        hist = os.path.join(d, "replay_hist.ndjson")
        with open(hist, "w") as f:
            f.write(json.dumps(replay_ops) + "\n")
    else:
        for gi, g in enumerate(fam.get("gen", {}).get(tier, [])):
            hist = hist or os.path.join(d, "hist.ndjson")
            part = os.path.join(d, "hist_%d.ndjson" % gi)
            extra = list(g.get("extra", []))
            extra = [x.replace("{seed}", str(seed)) for x in extra]
            n, s, t = vlib.gen_histories(d, g["module"], g["cfg"], part, extra=extra,
                                         workers=g.get("workers", vlib.NCPU), timeout=g.get("timeout", 900))
            log("TLC generated %d behaviours from %s/%s (%d states)" % (n, g["module"], g["cfg"], s))
            with open(hist, "a") as f, open(part) as pf:
                shutil.copyfileobj(pf, f)
            nh += n
            res.states += s
            res.transitions += t
    # 3. execute on the real code
    prefix = os.path.join(d, "trace")
    args = [fam["component"], "-seed", seed, "-out", prefix, "-shards", fam.get("shards", 12)]
    if hist:
        args += ["-hist", hist]
    if replay_ops is not None:
        args += fam.get("replay_args", ["-n", 0])
    else:
        args += fam["exec_args"](tier, seed)
    summ = vlib.vexec(binary, args, timeout=fam.get("exec_timeout", 3000), env={"GORACE": "exitcode=0"} if race else None,
                      crash_is_race=race)
    res.summary = summ
    res.samples = [x[:400] for x in summ.get("samples", [])[:6]]
    if race and (summ.get("_crashed") or "DATA RACE" in summ.get("_stderr", "")):
        res.extra["race_report"] = summ["_stderr"][-3000:]
    # 4. trace validation by TLC
    if summ.get("_crashed"):
        for f in glob.glob(prefix + ".*.ndjson"):   # the process died mid-write: its partial traces are not judged
            os.remove(f)
    shards = sorted(glob.glob(prefix + ".*.ndjson"))
    vr = vlib.validate_traces(d, fam["trace_module"], fam["trace_cfg"], shards,
                              timeout=fam.get("validate_timeout", 1800), deque=fam.get("deque", False))
    for r in vr:
        res.traces += r["traces"]
        res.events += r["events"]
        res.states += r["distinct"]
        res.transitions += max(r["generated"] - 1, 0)
        for b in r["bad"]:
            res.bad.append((r["shard"], b))
    res.extra["tlc_histories"] = nh
    res.extra["wall_pipeline_s"] = round(time.time() - t0, 1)
    log("validated %d traces / %d events against %s: %d deviating events" %
        (res.traces, res.events, fam["trace_module"], sum(r["nbad"] for r in vr)))
    res.extra["nbad_total"] = sum(r["nbad"] for r in vr)
    return res, d


def _collect(prop, fam, res, violations, known_hits, drift):
    """Sort the recorded deviations of one family run into violations of `prop`, known findings and specification drift."""
    rel_flags = fam["flags"].get(prop, set())
    known = [k for k in vlib.load_known().get("findings", []) if k["property"] == prop]
    for shard, b in res.bad:
        tid, idx, op, flags = b[0], b[1], b[2], set(b[3]["set"] if isinstance(b[3], dict) else b[3])
        dev = set()
        if len(b) > 4:
            dev = set(b[4]["set"] if isinstance(b[4], dict) else b[4])
        for f in flags:
            if f.startswith("drift-"):
                drift.setdefault((fam["name"], op, f), (shard, tid, idx))
        mine = flags & rel_flags
        if not mine:
            continue
        if dev & fam.get("exempt", {}).get(prop, set()):
            continue
        hit = None
        for k in known:
            if k["deviation_flag"] in dev and (not k.get("flags") or mine <= set(k["flags"])):
                hit = k
                break
        if hit:
            known_hits.setdefault(hit["id"], (hit, shard, tid, idx, op, sorted(mine)))
        else:
            violations.append((shard, tid, idx, op, sorted(mine), sorted(dev), fam))


def judge(prop, fam, res, tier, seed, t0, level="model_checking", extras=()):
    """Filter deviations relevant to `prop`, apply known findings, write evidence.  `extras`: (family, result) pairs of
    additional families run for the same property (their deviations count, their coverage is reported separately)."""
    rel_flags = fam["flags"][prop]
    violations = []
    known_hits = {}
    drift = {}
    _collect(prop, fam, res, violations, known_hits, drift)
    for (xfam, xres) in extras:
        _collect(prop, xfam, xres, violations, known_hits, drift)
    for (fname, op, f), (shard, tid, idx) in sorted(drift.items()):
        log("SPEC-DRIFT: family=%s op=%s %s (trace %s event #%d): the code no longer behaves as the specification describes, in a "
            "respect no listed property promises; not a violation" % (fname, op, f, tid, idx))
    for kid, (k, shard, tid, idx, op, mine) in sorted(known_hits.items()):
        log("KNOWN-FINDING: property=%s %s: %s" % (prop, k["deviation_flag"], k["what"]))
    rc = 0
    replay_path = None
    if violations:
        rc = 1
        seen = set()
        n = 0
        for (shard, tid, idx, op, mine, dev, vfam) in violations:
            key = (op, tuple(mine))
            if key in seen or n >= 3:
                continue
            seen.add(key)
            n += 1
            events = vlib.read_trace(shard, tid)
            flagged = vlib.line_of(shard, idx)
            payload = dict(property=prop, family=vfam["name"], component=vfam["component"], seed=seed, tier=tier,
                           flags=mine, deviation_flags=dev, flagged_event_index=idx, flagged_event=flagged,
                           ops=vfam["ops_of"](events), trace=events if len(json.dumps(events)) < 200000 else "omitted")
            p = vlib.save_replay(prop, n, payload)
            replay_path = replay_path or p
            log("VIOLATION property=%s replay=%s" % (prop, p))
            log("  first deviation: trace %s event #%d op=%s failed checks %s" % (tid, idx, op, mine))
    if res.extra.get("race_report") and "race" in rel_flags:
        p = vlib.save_replay(prop, 9, dict(property=prop, race_report=res.extra["race_report"]))
        log("VIOLATION property=%s replay=%s" % (prop, p))
        log("  data race reported by the Go race detector")
        rc = 1
    cov = dict(states=max(res.states, 1), transitions=max(res.transitions, 1),
               traces_validated_against_impl=res.traces,
               evaluations=res.events,
               distinct_nontrivial=fam["distinct"](res.summary),
               rule=fam["rule"],
               samples=res.samples or ["(none)"],
               exhaustive=bool(fam.get("exhaustive", {}).get(tier, False)),
               deviating_events_all_properties=res.extra.get("nbad_total", 0),
               known_findings_hit=sorted(known_hits.keys()))
    if drift:
        cov["spec_drift"] = sorted("%s:%s:%s" % k for k in drift)
    for (xfam, xres) in extras:
        cov["additional_family_" + xfam["name"]] = dict(
            rule=xfam["rule"], states=xres.states, transitions=xres.transitions, traces_validated_against_impl=xres.traces,
            evaluations=xres.events, distinct_nontrivial=xfam["distinct"](xres.summary),
            design_mutants_caught=xres.extra.get("design_mutants_caught", []), samples=(xres.samples or [])[:2])
    for k, v in res.extra.items():
        cov[k] = v
    for k in fam.get("summary_keys", []):
        if k in res.summary:
            cov[k] = res.summary[k]
    vlib.write_evidence(prop, tier, seed, level, cov, fam["assumptions"], time.time() - t0,
                        len(violations))
    return rc


# ----------------------------------------------------------------------------- family: mpt (C01, C02, C14)

def _mpt_ops(events):
    return [dict(op=e["op"], p=e.get("p", []), v=e.get("v", "")) for e in events
            if e["op"] not in ("reset", "sweep", "rootgroups")], \
           [e.get("cfg", 0) for e in events if e["op"] == "reset"]


MPT = dict(
    name="mpt", component="mpt", trace_module="MPTTrace", trace_cfg="MPTTrace.cfg",
    design={"quick": [("MPT_MC", "MPT_MC.cfg"), ("MPTAlg_MC", "MPTAlg_fixed.cfg")],
            "thorough": [("MPT_MC", "MPT_MC.cfg"), ("MPTAlg_MC", "MPTAlg_fixed.cfg")]},
    mutants={t: [("MPTAlg_MC", "MPTAlg_orig-insert-ext1.cfg", "Refines"), ("MPTAlg_MC", "MPTAlg_orig-delete-boundary.cfg", "Refines"),
                 ("MPTAlg_MC", "MPTAlg_orig-delete-value.cfg", "Refines")] for t in ("quick", "thorough")},
    gen={"quick": [dict(module="MPTGen_MC", cfg="MPTGen_quick.cfg", workers=8)],
         "thorough": [dict(module="MPTGen_MC", cfg="MPTGen_thorough.cfg", timeout=1800, workers=8),
                      # one test per transition of the complete state graph of MPT.tla (content before, operation)
                      dict(module="MPTGen_MC", cfg="MPTGen_trans.cfg", timeout=3000, workers=8)]},
    exec_args=lambda tier, seed: (["-n", 1500, "-maxops", 25, "-shapeevery", 3] if tier == "quick"
                                  else ["-n", 40000, "-maxops", 40, "-shapeevery", 4]),
    flags={"C01": {"items", "get", "res", "retroot", "unknown-op"},
           "C02": {"shape", "origin", "rootsplit", "rootcollide", "keys"},
           "C14": {"keys", "storekeys", "roundtrip"}},
    distinct=lambda s: s.get("distinct_contents", 0),
    rule="histories = (a) every behaviour of MPT.tla up to the generator depth emitted by TLC, (b) seeded random "
         "histories over colliding path alphabets; each executed on memory / layered / persistent(stub) stores; "
         "distinct_nontrivial = number of distinct trie contents (item sets) observed after some operation",
    summary_keys=["distinct_contents", "distinct_roots", "root_groups", "node_classes", "panics", "go_histories"],
    ops_of=lambda ev: _mpt_ops(ev)[0],
    assumptions=["bridge (harness/bridge/mpt.go): independent implementation of the published node encoding and "
                 "sha3-256 node hash is the trusted base tying TLA+ terms to bytes",
                 "persistent store = unmodified PNodeDB over an in-memory grocksdb stub (ordered KV, atomic batches)",
                 "sha3 collision freedom (hashes abstracted structurally in the specification)"],
)


# ----------------------------------------------------------------------------- family: statecache (C06, C07)

def _sc_ops(events):
    rs = [e for e in events if e["op"] == "reset"]
    ops = [{k: e.get(k, "") for k in ("op", "b", "t", "h", "p", "k", "v")} for e in events if e["op"] != "reset"]
    return dict(valtype=rs[0].get("valtype", "mut") if rs else "mut", small=rs[0].get("small", True) if rs else True, ops=ops)


SC = dict(
    name="statecache", component="statecache", trace_module="StateCacheTrace", trace_cfg="StateCacheTrace.cfg",
    design={"quick": [("StateCache_MC", "StateCache_MC.cfg")], "thorough": [("StateCache_MC", "StateCache_MC.cfg")]},
    gen={"quick": [dict(module="StateCacheGen", cfg="StateCacheGen_ex.cfg", workers=8),
                   dict(module="StateCacheGen", cfg="StateCacheGen_sim.cfg", workers=1,
                        extra=["-simulate", "num=3000", "-depth", "18", "-seed", "{seed}"])],
         "thorough": [dict(module="StateCacheGen", cfg="StateCacheGen_ex4.cfg", workers=8, timeout=3000),
                      dict(module="StateCacheGen", cfg="StateCacheGen_sim.cfg", workers=1, timeout=3000,
                           extra=["-simulate", "num=60000", "-depth", "18", "-seed", "{seed}"])]},
    exec_args=lambda tier, seed: (["-n", 2000, "-nlong", 6] if tier == "quick" else ["-n", 40000, "-nlong", 150]),
    flags={"C06": {"wrongvalue", "panic", "unknown-op"},
           "C07": {"musthit", "wrongvalue", "panic"}},
    distinct=lambda s: s.get("distinct_signatures", 0),
    rule="histories = (a) every behaviour of StateCache.tla of the generator depth over the scope chain A<-B<-C, fork B<-D, "
         "gap E, duplicate object for B, two transactions, emitted by TLC (exhaustive) and TLC -simulate samples; (b) seeded random "
         "block trees with forks/gaps/re-executed blocks and long chains (capacity); values are mutable (harness MutVal, real "
         "LeafNode/FullNode) and are mutated after every set and every get; distinct_nontrivial = distinct "
         "(operation, outcome) signatures of whole histories",
    summary_keys=["hits", "misses", "panics", "go_histories"],
    ops_of=_sc_ops,
    # C07 promises visibility only "unless evicted for capacity": deviations in histories that exceeded the
    # per-key capacity are C06's business (known finding EvictCloser), not C07's
    exempt={"C07": {"EvictCloser"}},
    assumptions=["two block-cache objects with the same hash carry the same previous hash",
                 "a block cache and its transaction caches are not judged after the block's Commit (end of life)",
                 "MustHit (C07 visibility after commit) asserted only in histories within the cache capacities "
                 "(<=200 entries per key, chains < 2000) and for keys never passed to StateCache.Remove"],
)

# ----------------------------------------------------------------------------- C08: schedules of StateCacheConc.tla replayed on goroutines

def _conc_cfg(d, name, algo, writes, committers, readers, invs, view=True, serialised=True, dup="{}", dupearly=False):
    with open(os.path.join(d, "StateCacheConc_%s.cfg" % name), "w") as f:
        f.write("SPECIFICATION Spec\nCONSTANTS\n  Serialised = %s\n  Algo = \"%s\"\n  Blocks <- MCBlocks\n  Writes <- %s\n"
                "  PreCommitted = 2\n  Committers <- %s\n  Dup = %s\n  DupEarly = %s\n  Readers <- %s\nINVARIANTS %s\n%sCHECK_DEADLOCK FALSE\n"
                % ("TRUE" if serialised else "FALSE", algo, writes, committers, dup, "TRUE" if dupearly else "FALSE", readers, invs,
                   "VIEW View\n" if view else ""))
    return "StateCacheConc_%s.cfg" % name


def run_c08(prop, tier, seed):
    t0 = time.time()
    d = vlib.scratch(prop + "_" + tier)
    binary = vlib.build_vexec()
    racebin = vlib.build_vexec(race=True)
    res = Result()
    safety = "HitIsTruth NoPoison Found ReturnedFound"
    writes_all = ["WritesB", "WritesBC", "WritesOnlyB", "WritesNone"]
    # 1. design: the algorithm as coded now (link, then probe) is safe in every scope; the previous order is not
    scopes = [("CB", "R_A1"), ("CB", "R_B"), ("CB", "R_C"), ("CC", "R_C"), ("CBC", "R_BC"), ("CBC", "R_A1C"), ("CBC", "R_BB"),
              ("CBC", "R_ABC")]
    if tier == "thorough":
        scopes += [("CBC", "R_BBC"), ("CBC", "R_BCC")]
    from concurrent.futures import ThreadPoolExecutor
    jobs = []
    n = 0
    for wr in writes_all:
        for (cm, rd) in scopes:
            n += 1
            jobs.append(_conc_cfg(d, "d%d" % n, "link_then_probe", wr, cm, rd, safety))

    # two cache objects of one block committed concurrently (the second commit waits for the first)
    for wr in writes_all:
        for (cm, rd, dup) in [("CB", "R_B", '{"B"}'), ("CBC", "R_BC", '{"B"}'), ("CBC", "R_BC", '{"B", "C"}')]:
            n += 1
            jobs.append(_conc_cfg(d, "d%d" % n, "link_then_probe", wr, cm, rd, safety, dup=dup))

    def _design(cfg):
        sd = os.path.join(d, "dd_" + cfg[:-4])
        os.makedirs(sd, exist_ok=True)
        for x in glob.glob(os.path.join(d, "StateCacheConc*.tla")) + [os.path.join(d, cfg)]:
            shutil.copy(x, sd)
        return vlib.design_check(sd, "StateCacheConc_MC", cfg, workers=1, timeout=600, xmx="2g")
    with ThreadPoolExecutor(max_workers=10) as ex:
        for s_, t_ in ex.map(_design, jobs):
            res.states += s_
            res.transitions += t_
    log("design: StateCacheConc (link_then_probe) safe in %d scopes, %d distinct states" % (n, res.states))
    cfg = _conc_cfg(d, "mut", "probe_then_link", "WritesB", "CB", "R_B", safety)
    vlib.design_check(d, "StateCacheConc_MC", cfg, workers=1, timeout=120, expect_violation="HitIsTruth")
    log("design mutant (probe_then_link) violates HitIsTruth as expected (anti-vacuity)")
    cfg = _conc_cfg(d, "mutlock", "link_then_probe", "WritesFreshBC", "CBC", "R_BC", "Found", serialised=False)
    vlib.design_check(d, "StateCacheConc_MC", cfg, workers=1, timeout=120, expect_violation="Found")
    log("design mutant (commits not serialised by the global lock) violates Found as expected (anti-vacuity)")
    cfg = _conc_cfg(d, "mutdup", "link_then_probe", "WritesBC", "CB", "R_B", "ReturnedFound", dup='{"B"}', dupearly=True)
    vlib.design_check(d, "StateCacheConc_MC", cfg, workers=1, timeout=120, expect_violation="ReturnedFound")
    log("design mutant (a duplicate commit returns while the first is in flight) violates ReturnedFound as expected (anti-vacuity)")
    # 2. schedules: every maximal schedule of 1 committer + 1 reader (both step orders), samples of bigger scopes
    hist = os.path.join(d, "sched.ndjson")
    nh = 0
    gens = []
    for wr in writes_all:
        for (cm, rd) in [("CB", "R_A1"), ("CB", "R_B"), ("CB", "R_C"), ("CC", "R_C"), ("CC", "R_B")]:
            for algo in ("link_then_probe", "probe_then_link"):
                gens.append((algo, wr, cm, rd, None))
        for (cm, rd) in [("CBC", "R_BC"), ("CBC", "R_A1C"), ("CBC", "R_BB"), ("CBC", "R_ABC")]:
            num = 150 if tier == "quick" else 4000
            gens.append(("link_then_probe", wr, cm, rd, num))
            gens.append(("probe_then_link", wr, cm, rd, num))
    if tier == "thorough":
        for wr in ("WritesB", "WritesBC"):
            for rd in ("R_BB", "R_BC", "R_A1C"):
                gens.append(("link_then_probe", wr, "CB", rd, None))   # every 1C+2R schedule
    # adversarial schedules: interleavings of two commits that the global lock is there to exclude (behaviours of the
    # unserialised design mutant).  On the code as it stands they are infeasible (the second commit blocks, the replay
    # lets the others run on); if the code stops serialising commits they run as written and are judged like all others
    for wr in ("WritesFreshBC", "WritesBC", "WritesB"):
        for rd in ("R_BC", "R_BB"):
            gens.append(("adv", wr, "CBC", rd, 60 if tier == "quick" else 1500))
    # a block committed twice: every schedule of the serialised model with one reader, and adversarial ones (the duplicate
    # moves while the first commit is in flight: on the code as it stands it blocks in the mutex)
    for wr in ("WritesBC", "WritesOnlyB"):
        gens.append(("link_then_probe", wr, "CB", "R_B", None, '{"B"}'))
        gens.append(("adv", wr, "CB", "R_B", 80 if tier == "quick" else 1500, '{"B"}'))
        gens.append(("adv", wr, "CBC", "R_BC", 60 if tier == "quick" else 1500, '{"B"}'))
    gjobs = []
    gi = 0
    for g in gens:
        (algo, wr, cm, rd, num), dup = g[:5], (g[5] if len(g) > 5 else "{}")
        gi += 1
        if algo == "adv":
            cfg = _conc_cfg(d, "g%d" % gi, "link_then_probe", wr, cm, rd, "Emit", view=False, serialised=False, dup=dup)
        else:
            cfg = _conc_cfg(d, "g%d" % gi, algo, wr, cm, rd, "Emit", view=False, dup=dup)
        extra = ["-simulate", "num=%d" % num, "-depth", "60", "-seed", str(seed + gi)] if num else []
        gjobs.append((gi, cfg, extra))

    def _gen(job):
        gi_, cfg, extra = job
        sd = os.path.join(d, "gg_%d" % gi_)
        os.makedirs(sd, exist_ok=True)
        for x in glob.glob(os.path.join(d, "StateCacheConc*.tla")) + [os.path.join(d, cfg)]:
            shutil.copy(x, sd)
        part = os.path.join(d, "sched_%d.ndjson" % gi_)
        return (part,) + vlib.gen_histories(sd, "StateCacheConc_MC", cfg, part, extra=extra, workers=1, timeout=1200, xmx="2g")
    with ThreadPoolExecutor(max_workers=10) as ex:
        for part, k, st, tr_ in ex.map(_gen, gjobs):
            with open(hist, "a") as f, open(part) as pf:
                shutil.copyfileobj(pf, f)
            nh += k
            res.states += st
            res.transitions += tr_
    log("TLC emitted %d schedules (%d generator configurations)" % (nh, gi))
    # 3. replay on real goroutines through the yield hook
    prefix = os.path.join(d, "trace")
    summ = vlib.vexec(binary, ["sched", "-hist", hist, "-out", prefix, "-shards", 8], timeout=3000)
    # 4. free-running stress under the race detector
    sprefix = os.path.join(d, "stress")
    nstress = 60 if tier == "quick" else 1500
    ssum = vlib.vexec(racebin, ["scstress", "-seed", seed, "-n", nstress, "-out", sprefix, "-shards", 4], timeout=3000,
                      env={"GORACE": "exitcode=0"}, crash_is_race=True)
    if ssum.get("_crashed") or "DATA RACE" in ssum.get("_stderr", ""):
        res.extra["race_report"] = ssum["_stderr"][-4000:]
    if ssum.get("_crashed"):
        for f in glob.glob(sprefix + ".*.ndjson"):   # the process died mid-write: its partial traces are not judged
            os.remove(f)
    shards = sorted(glob.glob(prefix + ".*.ndjson")) + sorted(glob.glob(sprefix + ".*.ndjson"))
    vr = vlib.validate_traces(d, "StateCacheSchedTrace", "StateCacheSchedTrace.cfg", shards, timeout=1800)
    for r in vr:
        res.traces += r["traces"]
        res.events += r["events"]
        res.states += r["distinct"]
        res.transitions += max(r["generated"] - 1, 0)
        for b in r["bad"]:
            res.bad.append((r["shard"], b))
    res.summary = dict(summ, stress_runs=nstress)
    res.samples = summ.get("samples", [])[:3]
    res.extra["tlc_schedules"] = nh
    res.extra["stress_runs_race_detector"] = nstress
    res.extra["nbad_total"] = sum(r["nbad"] for r in vr)
    log("replayed %d schedules + %d stress runs; %d deviating" % (nh, nstress, res.extra["nbad_total"]))
    rc = judge(prop, C08, res, tier, seed, t0)
    if rc == 0:
        shutil.rmtree(d, ignore_errors=True)
    log("%s %s: exit %d (%.1fs)" % (prop, tier, rc, time.time() - t0))
    return rc


C08 = dict(
    name="statecache-conc", component="sched", custom=run_c08,
    flags={"C08": {"wrongvalue", "poison", "notfound", "aftercommit", "panic", "race"}},
    distinct=lambda s: s.get("distinct_schedules", 0),
    rule="schedules = every maximal interleaving (at the granularity of shared-map accesses = yield points) of 1 committer + 1 "
         "reader for every reader placement (ancestor / committing block / descendant) and write pattern, emitted by TLC from "
         "StateCacheConc.tla for both step orders, plus TLC -simulate samples of 2 committers + 2..3 readers, plus ADVERSARIAL "
         "schedules (behaviours of the design mutant whose commits are not serialised by the global lock: infeasible on the code "
         "as long as it serialises commits - a blocked goroutine is detected by a short timeout and the others run on); each replayed "
         "deterministically on real goroutines through the verif yield hook; plus free-running 8-committer/32-reader runs under "
         "the Go race detector; distinct_nontrivial = distinct schedules replayed",
    summary_keys=["schedules", "stress_runs"],
    ops_of=lambda ev: ev,
    assumptions=["the Go race detector decides the 'no data race' clause (a specification cannot see races)",
                 "schedules are replayed as sequences of process ids: a released goroutine runs to its next yield point",
                 "block tree of the scopes is a chain; forks are covered sequentially by C06"],
)

# ----------------------------------------------------------------------------- family: rounds (C03, C04, C05)

def _rounds_ops(events):
    ops = []
    for e in events:
        op = e["op"]
        if op == "round":
            ops.append(dict(op="round", ver=e["ver"]))
        elif op in ("open", "merge", "discard"):
            ops.append(dict(op=op, t=e["t"]))
        elif op in ("ins", "del"):
            ops.append(dict(op=op, t=e["t"], p=e["p"], v=e.get("v", "")))
        elif op == "savebegin":
            ops.append(dict(op="save"))
        elif op == "prune":
            ops.append(dict(op="prune", ver=e["ver"]))
    rs = [e for e in events if e["op"] == "reset"]
    return dict(persist=rs[0].get("persist", True) if rs else True, quiet=rs[0].get("quiet", True) if rs else True,
                sharedcache=rs[0].get("sharedcache", False) if rs else False, ops=ops)


ROUNDS = dict(
    name="rounds", component="rounds", trace_module="MPTRounds", trace_cfg="MPTRounds.cfg",
    design={"quick": [("MPTTxn_MC", "MPTTxn_MC.cfg"), ("MPTPersist", "MPTPersist_MC.cfg")],
            "thorough": [("MPTTxn_MC", "MPTTxn_MC.cfg"), ("MPTPersist", "MPTPersist_MC4.cfg")]},
    mutants={"quick": [("MPTPersist", "MPTPersist_mut_origin.cfg", "DeadNotLive"), ("MPTPersist", "MPTPersist_mut_slack.cfg", "Safe")],
             "thorough": [("MPTPersist", "MPTPersist_mut_origin.cfg", "DeadNotLive"), ("MPTPersist", "MPTPersist_mut_slack.cfg", "Safe")]},
    gen={"quick": [dict(module="MPTTxn_MC", cfg="MPTTxn_gen_ex.cfg", workers=8),
                   dict(module="MPTTxn_MC", cfg="MPTTxn_gen_sim.cfg", workers=1,
                        extra=["-simulate", "num=1500", "-depth", "12", "-seed", "{seed}"]),
                   # behaviours of the persistence/crash/prune design model (multi-round, crash at every storage operation)
                   dict(module="MPTPersist", cfg="MPTPersist_gen.cfg", workers=1,
                        extra=["-simulate", "num=800", "-depth", "30", "-seed", "{seed}"]),
                   # structured exhaustive family: 2 direct inserts, one child, every 3..4 child operations, merge
                   dict(module="MPTTxn_MC", cfg="MPTTxn_gen_struct.cfg", workers=8),
                   # structured exhaustive sibling family: a later sibling restructures what an earlier, merged one created
                   dict(module="MPTTxn_MC", cfg="MPTTxn_gen_sib.cfg", workers=8),
                   # deep behaviours over two paths / two values / two children: overwrite-and-restore, split-and-collapse
                   dict(module="MPTTxn_MC", cfg="MPTTxn_gen_deep.cfg", workers=1,
                        extra=["-simulate", "num=2500", "-depth", "13", "-seed", "{seed}"])],
         "thorough": [dict(module="MPTTxn_MC", cfg="MPTTxn_gen_ex5.cfg", workers=8, timeout=3000),
                      dict(module="MPTTxn_MC", cfg="MPTTxn_gen_sim.cfg", workers=1, timeout=3000,
                           extra=["-simulate", "num=40000", "-depth", "12", "-seed", "{seed}"]),
                      dict(module="MPTTxn_MC", cfg="MPTTxn_gen_struct.cfg", workers=8),
                      dict(module="MPTTxn_MC", cfg="MPTTxn_gen_sib.cfg", workers=8),
                      dict(module="MPTPersist", cfg="MPTPersist_gen.cfg", workers=1, timeout=3000,
                           extra=["-simulate", "num=20000", "-depth", "30", "-seed", "{seed}"]),
                      dict(module="MPTTxn_MC", cfg="MPTTxn_gen_deep.cfg", workers=1, timeout=3000,
                           extra=["-simulate", "num=40000", "-depth", "13", "-seed", "{seed}"])]},
    exec_args=lambda tier, seed: (["-n", 300, "-nblock", 300] if tier == "quick" else ["-n", 8000, "-nblock", 8000]),
    flags={"C03": {"isolation", "content", "mergeres", "mergeview", "corrupt", "rootclash", "liveset", "res", "panic", "unknown-op"},
           "C04": {"incomplete", "damaged", "reopen", "reopenpruned", "saveres", "saveroot", "savedeletes", "unknownstart"},
           "C05": {"deadlive", "prunedlive", "prunedamage", "prunedrecord", "reopenpruned", "pruneres"}},
    distinct=lambda s: s.get("distinct_signatures", 0),
    rule="histories = (a) every behaviour of MPTTxn.tla (block trie + child tries, merge/discard/reject) of the generator depth "
         "emitted by TLC, plus TLC -simulate samples, each executed as one saved round; (b) seeded random multi-round histories "
         "(3-10 rounds, 1-5 transactions each, merged/discarded/stale, save, dead-node record, prune, crash inside the write stream "
         "of save/prune with re-execution); one trace event per storage write element, reopen of every retained root on the surviving "
         "store after each save/prune/crash; distinct_nontrivial = distinct operation-kind signatures of whole histories",
    summary_keys=["saves", "crashes", "prunes", "merges", "rejected_merges", "reopens", "distinct_nodes", "go_histories"],
    ops_of=_rounds_ops,
    replay_args=["-n", 0, "-nblock", 0],
    assumptions=["persistent store = unmodified PNodeDB over the in-memory grocksdb stub: ordered KV, atomic WriteBatch, a crash "
                 "preserves a prefix of the issued write elements",
                 "children left open while the parent's root changes are stale: their reads may fail with an error (never wrong "
                 "data) and their merge must be rejected leaving the parent untouched",
                 "node graph rows are parsed by the harness bridge from the bytes produced by the real code"],
)

# ----------------------------------------------------------------------------- family: sync (C17)

def _sync_ops(events):
    e0 = [e for e in events if e["op"] == "syncinit"][0]
    rp = [e for e in events if e["op"] == "repair"]
    vers = e0.get("vers", [1])
    return dict(init=e0["init"], absent=e0["absent"], buildvers=vers, repairver=rp[0]["ver"] if rp else 0)


SYNC = dict(
    name="sync", component="sync", trace_module="MPTSyncTrace", trace_cfg="MPTSyncTrace.cfg",
    design={"quick": [("MPTSync_MC", "MPTSync_MC.cfg")], "thorough": [("MPTSync_MC", "MPTSync_MC.cfg")]},
    gen={"quick": [dict(module="MPTSync_MC", cfg="MPTSync_gen.cfg", workers=8)],
         "thorough": [dict(module="MPTSync_MC", cfg="MPTSync_genbig.cfg", workers=8, timeout=3000)]},
    exec_args=lambda tier, seed: (["-n", 600] if tier == "quick" else ["-n", 20000]),
    flags={"C17": {"shape", "plan", "hasmissing", "allmissing", "missingkeys", "lookup", "repairres", "repairroot",
                   "repaircontent", "donorchanged", "repairkeys", "unknown-op"},
           # the repaired trie saves what it merged in: nodes of foreign origin under the hash of their own content
           "C14": {"savedkeys"}},
    distinct=lambda s: s.get("distinct_plans", 0),
    rule="plans = (a) every (content, set of removed non-root nodes) over all contents with 2..4 (thorough: 2..6) entries of a "
         "7-path universe, emitted by TLC from MPTSync.tla; (b) seeded random larger tries with single-node, subtree and scattered "
         "removals; tries built at one or several versions, repaired at the same or another version, donors with unrelated extra "
         "nodes; distinct_nontrivial = distinct (content, removal set) pairs",
    summary_keys=["panics", "go_histories"],
    ops_of=_sync_ops,
    assumptions=["nodes are identified by position in the canonical trie (C02 ties the real shape to it)",
                 "GetMissingNodeKeys is judged on a fresh trie object after exactly one full traversal, as a set"],
)

# ----------------------------------------------------------------------------- C16: concurrent use of one trie (search mode + race detector)

def run_c16(prop, tier, seed):
    t0 = time.time()
    d = vlib.scratch(prop + "_" + tier)
    racebin = vlib.build_vexec(race=True)
    res = Result()
    s, t = vlib.design_check(d, "MPT_MC", "MPT_MC.cfg")
    res.states += s
    res.transitions += t
    prefix = os.path.join(d, "trace")
    n, nm = (250, 120) if tier == "quick" else (8000, 3000)
    summ = vlib.vexec(racebin, ["conc", "-seed", seed, "-n", n, "-nmissing", nm, "-out", prefix, "-shards", 12], timeout=3000,
                      env={"GORACE": "exitcode=0"}, crash_is_race=True)
    if summ.get("_crashed") or "DATA RACE" in summ.get("_stderr", ""):
        res.extra["race_report"] = summ["_stderr"][-6000:]
    if summ.get("_crashed"):
        for f in glob.glob(prefix + ".*.ndjson"):   # the process died mid-write: its partial traces are not judged
            os.remove(f)
    shards = sorted(glob.glob(prefix + ".*.ndjson"))
    vr = vlib.validate_traces(d, "MPTConc", "MPTConc.cfg", shards, timeout=1800, deque=True)
    consumed = 0
    for r in vr:
        consumed += r["events"]
        res.states += r["distinct"]
        res.transitions += max(r["generated"] - 1, 0)
        for b in r["bad"]:
            res.bad.append((r["shard"], b))
    res.traces = summ.get("traces", 0)
    res.events = summ.get("events", 0)
    res.summary = summ
    res.samples = summ.get("samples", [])[:4]
    res.extra["records_consumed_by_tlc"] = consumed
    res.extra["nbad_total"] = sum(r["nbad"] for r in vr)
    res.extra["panics"] = summ.get("panics", 0)
    if summ.get("panics", 0):
        res.bad.append((shards[0], [0, 1, "run", {"set": ["panic"]}, {"set": []}]))
    log("validated %d concurrent histories (%d call/return records, search mode): %d rejected; race report: %s" %
        (res.traces, res.events, res.extra["nbad_total"], "YES" if "race_report" in res.extra else "none"))
    rc = judge(prop, C16, res, tier, seed, t0)
    if rc == 0:
        shutil.rmtree(d, ignore_errors=True)
    log("%s %s: exit %d (%.1fs)" % (prop, tier, rc, time.time() - t0))
    return rc


C16 = dict(
    name="mpt-conc", component="conc", custom=run_c16,
    flags={"C16": {"notlinearizable", "panic", "race"}},
    distinct=lambda s: s.get("ops", 0),
    rule="histories = real concurrent runs of 2-4 goroutines x 2-5 operations (insert, delete, lookup, iterate, GetChanges, "
         "SaveChanges to a fresh store) on one trie, overlapping and disjoint key sets, seeded Gosched/sleep perturbation, race "
         "detector on; call/return records ordered by one atomic counter; TLC searches for a linearization (MPTConc.tla) and checks "
         "final content and canonical shape; extra race-only runs with a node removed from the store so that readers hit missing "
         "nodes; distinct_nontrivial = number of completed operations judged",
    summary_keys=["ops", "panics", "distinct_shapes"],
    ops_of=lambda ev: ev,
    assumptions=["the Go race detector decides the 'no data race' clause",
                 "GetChanges/SaveChanges are snapshot reads: the change set over the nodes that existed before the run must be a complete trie holding the content of the linearization point; an empty saved set is not judged",
                 "a rejected history stops the validation of the remaining histories in the same shard"],
)

# ----------------------------------------------------------------------------- family: wmpt (C09, C11, C13)

def _wmpt_ops(events):
    ops = []
    for e in events:
        op = e["op"]
        if op in ("update", "updel", "delete"):
            ops.append(dict(op=op, k=e["k"], v=e.get("tok", e.get("v", ""))))
        elif op == "commitbegin":
            ops.append(dict(op="commit", level=e["level"]))
        elif op == "gcbegin":
            ops.append(dict(op="gc"))
        elif op in ("reload", "readroot", "owners", "saveroot"):
            ops.append(dict(op=op, level=e.get("level", 0)))
        elif op == "rolledback":
            ops.append(dict(op=e["how"]))
    r = ([e for e in events if e["op"] == "reset"] or [{}])[0]
    return dict(mode="replay", uni=r.get("uni", ""), sub=r.get("sub") or [], scale=r.get("scale", 0), ops=ops)


WMPT = dict(
    name="wmpt", component="wmpt", trace_module="WMPTTrace", trace_cfg="WMPTTrace.cfg",
    design={"quick": [("WMPT_MC", "WMPT_MCq.cfg"), ("WMPT_MC", "WMPT_MCrw.cfg"), ("WMPTGC", "WMPTGC_distinct.cfg"),
                      ("WMPTAlg_MC", "WMPTAlg_fixed.cfg")],
            "thorough": [("WMPT_MC", "WMPT_MC.cfg"), ("WMPT_MC", "WMPT_MCrw.cfg"), ("WMPTGC", "WMPTGC_distinct.cfg"),
                         ("WMPTAlg_MC", "WMPTAlg_fixed6.cfg")]},
    mutants={t: [("WMPTGC", "WMPTGC_shared.cfg", "Durable"), ("WMPTAlg_MC", "WMPTAlg_orig-reweigh.cfg", "Refines"),
                 ("WMPTAlg_MC", "WMPTAlg_nibblezero.cfg", "Refines"), ("WMPTAlg_MC", "WMPTAlg_nomerge.cfg", "Refines")]
             for t in ("quick", "thorough")},
    gen={"quick": [dict(module="WMPT_MC", cfg="WMPT_gen_sim.cfg", workers=1,
                        extra=["-simulate", "num=1200", "-depth", "20", "-seed", "{seed}"]),
                   dict(module="WMPT_MC", cfg="WMPT_gen_ex.cfg", workers=8),
                   dict(module="WMPT_MC", cfg="WMPT_gen_gc.cfg", workers=8)],
         "thorough": [dict(module="WMPT_MC", cfg="WMPT_gen_ex.cfg", workers=8, timeout=3000),
                      dict(module="WMPT_MC", cfg="WMPT_gen_gc8.cfg", workers=8, timeout=3000),
                      dict(module="WMPT_MC", cfg="WMPT_gen_sim.cfg", workers=1, timeout=3000,
                           extra=["-simulate", "num=40000", "-depth", "20", "-seed", "{seed}"])]},
    exec_args=lambda tier, seed: (["-n", 1200] if tier == "quick" else ["-n", 30000]),
    flags={"C09": {"weight", "change", "owner", "root", "rootfn", "wshape", "range", "res", "unknown-op"},
           "C11": {"durable", "commitincomplete", "reopen", "storekeys"},
           "C13": {"rollbackroot", "rollbackweight", "rollbackdamage", "rollbackleft", "rollbackreopen", "rollbackdurable"}},
    distinct=lambda s: s.get("distinct_signatures", 0),
    rule="histories = (a) behaviours of WMPT.tla (update/delete/commit at levels 0,1,3/gc/reload/readroot/owners/saveroot/"
         "rollback) emitted by TLC: -simulate samples, every behaviour of depth 4 over 2 keys x 3 values, and every behaviour of depth 7 "
         "(thorough: 8) of the storage protocol alone (update/delete/commit/gc/saveroot/rollback, SpecGC) over one key; (b) seeded random "
         "histories in generator modes plain/shared/dirty/again/all and checkpoint-commit-rollback scenarios; all rotated over the key "
         "universes (prefix universe, 4-nibble 0/1 window at the head / tail of the key, sixteen-way fan-out at the root / one level down / at the end of the key), weights scaled per trace"
         "; one trace event per storage write element; reopen from (root, weight) after every commit, gc "
         "and rollback; distinct_nontrivial = distinct operation-kind signatures of whole histories",
    summary_keys=["commits", "gcs", "owner_observations", "rollbacks", "copyroot_forks", "distinct_nodes", "generator_modes", "go_histories", "panics"],
    ops_of=_wmpt_ops,
    assumptions=["storage = in-memory StorageAdapter with atomic batches (Pebble itself is not exercised)",
                 "weight is a function of the value (length of the value's part before '#') times a per-trace scale (1, 1000, 2^20, 2^33+7, 2^40): the trie works with the real numbers, the trace carries the small ones; one owners row per unit of `scale` blocks (first, middle and last block of the unit must agree)",
                 "independent root/weight computation and node parsing by harness/bridge/wmpt.go",
                 "SaveRoot/reload are only issued on a clean (committed) trie; exactly one commit between checkpoint and rollback"],
)

# ----------------------------------------------------------------------------- family: proof (C10)

def _proof_ops(events):
    e = events[0]
    return dict(note="re-run of a single proof event is not supported; see the plan", event=e)


PROOF = dict(
    name="proof", component="proof", trace_module="WMPTProofTrace", trace_cfg="WMPTProofTrace.cfg",
    design={"quick": [("WMPTProof_MC", "WMPTProof_soundq.cfg")], "thorough": [("WMPTProof_MC", "WMPTProof_sound.cfg")]},
    mutants={"quick": [("WMPTProof_MC", "WMPTProof_reweight.cfg", "Sound"), ("WMPTProof_MC", "WMPTProof_imitate.cfg", "Sound")],
             "thorough": [("WMPTProof_MC", "WMPTProof_reweight.cfg", "Sound"), ("WMPTProof_MC", "WMPTProof_imitate.cfg", "Sound")]},
    gen={"quick": [dict(module="WMPTProof_MC", cfg="WMPTProof_genq.cfg", workers=12, timeout=1200)],
         "thorough": [dict(module="WMPTProof_MC", cfg="WMPTProof_gen3.cfg", workers=12, timeout=3000)]},
    exec_args=lambda tier, seed: (["-n", 300] if tier == "quick" else ["-n", 20000]),
    flags={"C10": {"honest", "forged", "panic"}},
    distinct=lambda s: s.get("distinct_outcome_classes", 0),
    rule="proofs = (a) every (trie, block, sequence of <=2 structured edits: re-weight siblings keeping the sum, swap sibling slots, "
         "change a claimed weight, change the value, drop/duplicate an element, splice in the tail of another block's proof, pass a branch's hash preimage off as a "
         "value record) explored "
         "by TLC in WMPTProof.tla, applied by structural index to the real honest proof bytes and submitted to the real verifier; "
         "(b) honest proofs of random tries of 3-42 keys and byte-level tampering (bit flips, truncation, other block, other trie, preimage of a branch / "
         "short record as value record); "
         "distinct_nontrivial = distinct (trie size, block, edit kinds, outcome) classes",
    summary_keys=["rejected", "verified_to_trusted_root", "verified_to_other_root", "model_forged_plans", "panics", "go_histories"],
    ops_of=_proof_ops,
    assumptions=["proof bytes are decoded/re-encoded by the harness bridge (independent CBOR layout implementation)",
                 "verification always uses a fresh verifier trie",
                 "only 'trusted root together with a wrong value' is a violation; rejecting or another root is fine"],
)

# ----------------------------------------------------------------------------- family: wpath (C12)

def _wpath_ops(events):
    r = [e for e in events if e["op"] == "reset"][0]
    x = [e for e in events if e["op"] == "export"][0]
    ops = [dict(op=e["op"], k=e["k"], v=e.get("tok", e.get("v", "")), level=0) for e in events if e["op"] in ("update", "delete")]
    return dict(init=[[i[0], i[1]] for i in r["init"]], level=r["level"], req=x["req"], big=False, ops=ops,
                uni=r.get("uni", ""), sub=r.get("sub") or [], scale=r.get("scale", 0))


WPATH = dict(
    name="wpath", component="wpath", trace_module="WMPTPathTrace", trace_cfg="WMPTPathTrace.cfg",
    design={"quick": [("WMPT_MC", "WMPT_MCq.cfg")], "thorough": [("WMPT_MC", "WMPT_MC.cfg")]},
    gen={"quick": [dict(module="WMPTPath", cfg="WMPTPath.cfg", workers=8),
                   dict(module="WMPTPath", cfg="WMPTPath_shape.cfg", workers=8)],
         "thorough": [dict(module="WMPTPath", cfg="WMPTPath_big.cfg", workers=12, timeout=3000),
                      dict(module="WMPTPath", cfg="WMPTPath_shape_big.cfg", workers=12, timeout=3000)]},
    exec_args=lambda tier, seed: (["-n", 1500] if tier == "quick" else ["-n", 40000]),
    flags={"C12": {"export", "importroot", "importweight", "mirrorres", "mirrorroot", "mirrorweight", "fullres", "fullweight",
                   "rootfn", "finalroot", "unknown-op"}},
    distinct=lambda s: s.get("distinct_signatures", 0),
    rule="scenarios = (a) every (source content over 3 keys, collapse level in-memory/0/1, requested set incl. an absent key and an "
         "optional block of 11 absent filler keys (> 10 requested keys), <=2 mirrored updates/deletes of requested keys) emitted by "
         "TLC from WMPTPath.tla (19200 quick) plus the structural scope WMPTPath_shape.cfg (every content of <=3 of the 8 keys 0xxx of a "
         "4-nibble 0/1 window, <=1 requested key incl. an absent one, in memory / Commit(1) / committed and re-opened, <=2 mirrored "
         "operations; each executed with the window at the head and at the tail of the key: all local shapes incl. one-nibble "
         "extensions and leaf rests of 0/1/2 nibbles); (b) seeded random scenarios over ten 32-byte keys (root a branch, a shared-prefix node, "
         "a single entry or empty), 0..14 requested keys, collapse levels -1/0/1/2/3/64, up to 7 mirrored operations; "
         "distinct_nontrivial = distinct (content size, level, request size, operation kinds) signatures",
    summary_keys=["import_errors", "panics", "go_histories"],
    ops_of=_wpath_ops,
    assumptions=["only updates/deletes of requested keys are mirrored", "independent root computation by harness/bridge/wmpt.go"],
)

# ----------------------------------------------------------------------------- family: codec (C15)

CODEC = dict(
    name="codec", component="codec", trace_module="CodecTrace", trace_cfg="CodecTrace.cfg", level="exploration",
    design={"quick": [("Codec", "Codec_MC.cfg")], "thorough": [("Codec", "Codec_MC.cfg")]},
    gen={"quick": [dict(module="Codec", cfg="Codec_gen1.cfg", workers=4)],
         "thorough": [dict(module="Codec", cfg="Codec_gen2.cfg", workers=12, timeout=3000)]},
    exec_args=lambda tier, seed: (["-n", 60000] if tier == "quick" else ["-n", 2000000]),
    flags={"C15": {"panic-mpt", "panic-wnode", "panic-wpath", "panic-wproof", "timeout-mpt", "timeout-wnode", "timeout-wpath",
                   "timeout-wproof", "reencode-mpt", "reencode-wnode", "reencode-wpath", "reencode-wproof"}},
    distinct=lambda s: s.get("distinct_outcome_classes", 0),
    rule="inputs = (a) every mutation plan of Codec.tla (quick: all single mutations, thorough: all pairs; 15 mutation families incl. "
         "truncation, separator removal/duplication, type byte, CBOR length-field inflation, splicing, bit flips, byte-string/array "
         "length changes, null elements, nested-record changes) applied to every matching seed of a corpus harvested from real tries "
         "(every state-trie node kind, weighted-trie records, path exports, proofs); (b) seeded random and randomly mutated inputs; "
         "every input goes to all four decoders under recover and a 2 s deadline, accepted results are re-encoded; "
         "distinct_nontrivial = distinct (seed kind, mutation kinds, per-decoder outcome) classes",
    summary_keys=["seeds", "panics", "timeouts", "accepted", "rejected", "go_histories"],
    ops_of=lambda ev: dict(event=ev[0]),
    assumptions=["memory safety over ALL byte strings is outside what a state-machine specification decides: the claim is exploration "
                 "of a structured, TLC-enumerated mutation space plus random inputs (DESIGN.md section 6)"],
)

# ----------------------------------------------------------------------------- family: logring (C20)

LOGRING = dict(
    name="logring", component="logring", trace_module="LogRingTrace", trace_cfg="LogRingTrace.cfg", race=True,
    design={"quick": [("LogRing", "LogRing_MC.cfg")], "thorough": [("LogRing", "LogRing_MC.cfg")]},
    gen={"quick": [dict(module="LogRing", cfg="LogRing_gen.cfg", workers=4)],
         "thorough": [dict(module="LogRing", cfg="LogRing_gen5.cfg", workers=8, timeout=3000)]},
    exec_args=lambda tier, seed: (["-n", 150, "-nconc", 40] if tier == "quick" else ["-n", 3000, "-nconc", 1500]),
    flags={"C20": {"snapshot", "writelogs", "concsnapshot", "panic", "race", "harness", "unknown-op"}},
    distinct=lambda s: s.get("distinct_signatures", 0),
    rule="histories = (a) every behaviour of LogRing.tla of 4 (thorough: 5) steps - writes of runs of 1/2/1023/1500 entries through "
         "the root logger and loggers derived at different times, derivations, snapshots - emitted by TLC (totals below, at and far "
         "above the capacity 1024); (b) seeded random sequential histories; (c) 2-8 goroutines writing unique messages through root or "
         "derived loggers concurrently with readers, race detector on; every snapshot is compared by TLC with the specification "
         "(sequential: exactly the last min(total,1024) entries newest first; concurrent: duplicate-free, right length, per-goroutine "
         "newest-first suffixes); distinct_nontrivial = distinct operation-kind signatures",
    summary_keys=["entries_written", "concurrent_runs", "panics", "go_histories"],
    ops_of=lambda ev: dict(ops=[dict(op=e["op"], lg=e.get("lg", 0), n=e.get("n", 0)) for e in ev if e["op"] in ("write", "derive", "snapshot")]),
    assumptions=["the Go race detector decides the 'no data race' clause",
                 "entries are written directly through zapcore.Core.Write of the root core and of cores returned by With"],
)

# ----------------------------------------------------------------------------- family: merkle (C19)

MERKLE = dict(
    name="merkle", component="merkle", trace_module="MerkleTreeTrace", trace_cfg="MerkleTreeTrace.cfg",
    design={"quick": [("MerkleTree", "MerkleTree_MC.cfg")], "thorough": [("MerkleTree", "MerkleTree_MC64.cfg")]},
    exec_args=lambda tier, seed: (["-maxn", 300, "-n", 60] if tier == "quick" else ["-maxn", 600, "-n", 2000]),
    flags={"C19": {"panic", "size", "layout", "pathpos", "verifyindex", "verifyleaf", "foreign", "settree"}},
    distinct=lambda s: s.get("distinct_leaf_counts", 0),
    rule="trees = every leaf count 1..300 (thorough 1..600) with every leaf index, plus sampled larger trees (up to ~4300 leaves, "
         "sizes around powers of two) with boundary and random indices; per path: the array positions of the returned nodes, "
         "verification by index and by leaf lookup, rejection of every other leaf (all for n <= 64, neighbours and random otherwise) "
         "and of a non-leaf hash, SetTree(GetTree()) round trip; per tree: parent = MHash(left, right-or-left) at the positions of the "
         "specification's layout; distinct_nontrivial = distinct leaf counts",
    summary_keys=["paths", "panics"],
    ops_of=lambda ev: dict(event="tree n=%s" % ev[0].get("n")),
    assumptions=["sha3 collision freedom (symbolic hashing in the specification)", "leaf hashes are pairwise distinct"],
)

# ----------------------------------------------------------------------------- family: currency (C18)

CURRENCY = dict(
    name="currency", component="currency", trace_module="CurrencyTrace", trace_cfg="CurrencyTrace.cfg",
    design={"quick": [("Currency", "Currency_MC.cfg")], "thorough": [("Currency", "Currency_MC8.cfg")]},
    mutants={"quick": [("Currency", "Currency_mut.cfg", "MulExact")], "thorough": [("Currency", "Currency_mut.cfg", "MulExact")]},
    exec_args=lambda tier, seed: (["-n", 40] if tier == "quick" else ["-n", 1500]),
    flags={"C18": {"panic", "inexact"}},
    distinct=lambda s: s.get("distinct_helper_outcomes", 0),
    rule="calls = every exported helper of package currency on the boundary lattice of 64-bit operands (0, 1, 2^k, 2^k+-1 for all k, "
         "sqrt and max boundaries, pairs with product = 0 mod 2^64, signed operands incl. negatives, zero and MinInt64, floats: +-0, "
         "subnormals, 2^53+-1, 2^63, 2^64 and neighbours, 1e19, 1e30, 1e300, NaN, +-Inf, decimals with 0-12 fractional digits) plus "
         "seeded random operands; TLC recomputes every result with base-10^4 limb arithmetic; distinct_nontrivial = distinct "
         "(helper, outcome class) pairs",
    summary_keys=["panics", "errors", "oks"],
    ops_of=lambda ev: dict(event=ev[0]),
    assumptions=["IEEE-754 products, the exact integer part of a float and its shortest round-trip decimal are taken from the Go "
                 "runtime (float64 arithmetic, math/big, strconv)",
                 "ParseZCN of an amount in (MaxInt64, MaxUint64] may fail or succeed exactly",
                 "Coin.Float64 is judged for: no panic, no error, exact below 2^53, integer-valued"],
)

# ----------------------------------------------------------------------------- family: nodedb (C03 mechanism: layered node stores)

def _nodedb_ops(events):
    r = [e for e in events if e["op"] == "reset"][0]
    t = r["topo"]
    return dict(topo=dict(c1=t[0], p1=t[1], c2=t[2], p2=t[3]), prop1=r["prop1"], prop2=r["prop2"],
                ops=[dict(op=e["op"], h=e.get("h", ""), ks=e.get("ks", []), h2=e.get("h2", "")) for e in events if e["op"] != "reset"])


NODEDB = dict(
    name="nodedb", component="nodedb", trace_module="NodeDBTrace", trace_cfg="NodeDBTrace.cfg",
    design={"quick": [("NodeDB_MC", "NodeDB_MC.cfg")], "thorough": [("NodeDB_MC", "NodeDB_MC.cfg")]},
    mutants={t: [("NodeDB_MC", "NodeDB_mut.cfg", "Isolation")] for t in ("quick", "thorough")},
    gen={"quick": [dict(module="NodeDB_MC", cfg="NodeDB_gen.cfg", workers=1,
                        extra=["-simulate", "num=2000", "-depth", "10", "-seed", "{seed}"])],
         "thorough": [dict(module="NodeDB_MC", cfg="NodeDB_gen.cfg", workers=1, timeout=3000,
                           extra=["-simulate", "num=60000", "-depth", "10", "-seed", "{seed}"])]},
    exec_args=lambda tier, seed: (["-n", 1500] if tier == "quick" else ["-n", 60000]),
    flags={"C03": {"layerisolation", "readthrough", "putvisible", "putalias", "res", "unknown-op"}},
    distinct=lambda s: s.get("distinct_signatures", 0),
    rule="node-store histories = behaviours of NodeDB.tla (TLC -simulate) and seeded random histories of get/put/delete/multi-*/"
         "iterate/size/rebase/set-previous/MergeState on real MemoryNodeDB, PNodeDB(stub) and two stacked LevelNodeDB objects in three "
         "topologies, both PropagateDeletes settings; after every operation the keys present in every plain store are read directly and "
         "compared with the specification; put arguments are scribbled over after the call",
    summary_keys=["panics", "go_histories", "tlc_histories"],
    ops_of=lambda events: _nodedb_ops(events),
    assumptions=["deviations in behaviour no listed property promises (delete bookkeeping, iteration multiplicities, size) are reported as "
                 "SPEC-DRIFT lines, never as violations"],
)

FAMILIES = {"C01": MPT, "C02": MPT, "C14": MPT, "C06": SC, "C07": SC, "C08": C08, "C03": ROUNDS, "C04": ROUNDS, "C05": ROUNDS, "C17": SYNC, "C16": C16, "C09": WMPT, "C11": WMPT, "C13": WMPT, "C10": PROOF, "C12": WPATH, "C15": CODEC, "C20": LOGRING, "C19": MERKLE, "C18": CURRENCY}
# additional families run for a property besides its main one
EXTRA_FAMILIES = {"C03": [NODEDB], "C14": [SYNC]}
PROPS = dict(FAMILIES)


def run_property(prop, tier, seed):
    if tier not in TIERS:
        raise Infra("unknown tier " + tier)
    t0 = time.time()
    fam = FAMILIES[prop]
    if "custom" in fam:
        return fam["custom"](prop, tier, seed)
    extras, xdirs = [], []
    for xfam in EXTRA_FAMILIES.get(prop, []):
        xres, xd = run_family(xfam, prop, tier, seed, d=vlib.scratch("%s_%s_%s" % (prop, xfam["name"], tier)))
        extras.append((xfam, xres))
        xdirs.append(xd)
    res, d = run_family(fam, prop, tier, seed)
    rc = judge(prop, fam, res, tier, seed, t0, level=fam.get("level", "model_checking"), extras=extras)
    if rc == 0:
        shutil.rmtree(d, ignore_errors=True)
        for xd in xdirs:
            shutil.rmtree(xd, ignore_errors=True)
    log("%s %s: exit %d (%.1fs)" % (prop, tier, rc, time.time() - t0))
    return rc


def _replay_c08(payload, path):
    ev = payload.get("flagged_event") or {}
    if ev.get("op") != "sched":
        log("stress runs are not replayable (free-running goroutines); re-run ./bin/check C08")
        return 2
    d = vlib.scratch("replay_C08")
    binary = vlib.build_vexec()
    hist = os.path.join(d, "sched.ndjson")
    with open(hist, "w") as f:
        f.write(json.dumps(dict(blocks=ev["blocks"], writes=ev["writes"], pre=ev["pre"], committers=ev.get("cprocs", ev["committers"]),
                                readers=ev["readers"], sched=ev["sched"], adv=ev.get("adv", False))) + "\n")
    prefix = os.path.join(d, "trace")
    vlib.vexec(binary, ["sched", "-hist", hist, "-out", prefix, "-shards", 1])
    vr = vlib.validate_traces(d, "StateCacheSchedTrace", "StateCacheSchedTrace.cfg", sorted(glob.glob(prefix + ".*.ndjson")))
    bad = [b for r in vr for b in r["bad"]]
    for b in bad[:3]:
        log("replay deviation:", json.dumps(b))
    if bad:
        log("VIOLATION property=C08 replay=%s" % path)
        return 1
    log("replay passes on the current tree")
    return 0


def replay(path):
    payload = json.load(open(path))
    prop = payload["property"]
    fam = FAMILIES[prop]
    for xfam in EXTRA_FAMILIES.get(prop, []):
        if payload.get("family") == xfam["name"]:
            fam = xfam
    if prop == "C08":
        return _replay_c08(payload, path)
    if "custom" in fam or fam["name"] in ("proof", "codec", "merkle", "currency"):
        log("single-case replay is not implemented for %s; the replay file holds the failing event; re-run ./bin/check %s" % (prop, prop))
        return 2
    t0 = time.time()
    if "ops" not in payload:
        log("replay file carries no operation sequence (race report?)")
        return 2
    res, d = run_family(fam, prop, "quick", payload.get("seed", 1), d=vlib.scratch("replay_" + prop),
                        replay_ops=payload["ops"])
    rel = fam["flags"][prop]
    bad = [b for (_, b) in res.bad if set(b[3]["set"] if isinstance(b[3], dict) else b[3]) & rel]
    for b in bad[:5]:
        log("replay deviation:", json.dumps(b))
    if bad:
        log("VIOLATION property=%s replay=%s" % (prop, path))
        return 1
    log("replay passes on the current tree")
    return 0
