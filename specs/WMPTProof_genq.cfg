SPECIFICATION PSpec
CONSTANTS
  Tries <- MCTriesG
  MaxEdits = 2
  AllowImitate = TRUE
  AllowReweight = TRUE
  GenMode = TRUE
INVARIANTS Complete EmitPlan
CHECK_DEADLOCK FALSE
