SPECIFICATION SSpec
CONSTANTS
  Paths = {}
  Values = {}
  Contents <- SContents
  GenMode = TRUE
INVARIANTS FrontierOK LookupOK RepairedOK
CHECK_DEADLOCK FALSE
