---------------------------- MODULE WMPTProof_MC ----------------------------
EXTENDS WMPTProof
E(v, w) == [v |-> v, w |-> w]
\* root branch with a single-key child and a two-key child
TA == (<<0, 0>> :> E("a", 2)) @@ (<<1, 0>> :> E("b", 1)) @@ (<<1, 1>> :> E("c", 2))
\* three children at the root, the middle one with two keys (a left sibling can give weight to a right sibling)
TB == (<<0, 0>> :> E("a", 2)) @@ (<<1, 0>> :> E("b", 2)) @@ (<<1, 2>> :> E("c", 1)) @@ (<<2, 0>> :> E("d", 2))
\* two multi-key children
TC == (<<0, 0>> :> E("a", 1)) @@ (<<0, 3>> :> E("b", 2)) @@ (<<3, 1>> :> E("c", 2)) @@ (<<3, 2>> :> E("d", 1))
MCTries == {TA, TB, TC}
MCTriesQ == {TA, TB}
MCTriesG == {TB}
=============================================================================
