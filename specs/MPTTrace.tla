------------------------------ MODULE MPTTrace ------------------------------
(***************************************************************************)
(* Trace validation of the real state trie against MPT.tla (C01, C02, C14).*)
(* Deterministic mode: every event carries the operation, its arguments,   *)
(* the result class and the observed state; the specification computes the *)
(* required response with its own operators and records every deviation in *)
(* `bad`, continuing from the specification's state so that the rest of    *)
(* the trace is judged against the right oracle.                           *)
(***************************************************************************)
EXTENDS MPT, Json, IOUtils

Trace == ndJsonDeserialize(IOEnv.TRACE)

VARIABLES l,        \* index of the next event
          bad,      \* deviations found: <<tid, index, op, flags>>  (first MaxBad kept)
          nbad,     \* total number of deviating events
          ntr       \* number of traces seen

tvars == <<content, l, bad, nbad, ntr>>

MaxBad == 40
\* deviations are kept per class (operation, failed checks, deviation flags): a flood of one class never hides another
KeepBad(bd, op, fl, dv) == Cardinality({b \in bd : b[3] = op /\ b[4] = fl}) < 6 /\ Cardinality(bd) < 40 * MaxBad
ToSet(s) == {s[i] : i \in DOMAIN s}
Has(e, f) == f \in DOMAIN e

FromItems(items) ==
  LET S == ToSet(items)
  IN  [p \in {it[1] : it \in S} |-> (CHOOSE it \in S : it[1] = p)[2]]

Flag(cond, name) == IF cond THEN {} ELSE {name}

\* observation of the trie state after an event, judged against content c
ObsFlags(e, c) ==
       Flag(e.ires = "ok" /\ ToSet(e.items) = Pairs(c) /\ Len(e.items) = Cardinality(DOMAIN c), "items")
  \cup Flag(\A g \in ToSet(e.gets) :
               LET r == LookupResp(c, g[1]) IN g[2] = r.res /\ g[3] = r.val, "get")
  \cup Flag(e.keysOK, "keys")
  \cup Flag(~e.chk \/ ~Has(e, "shape") \/ e.shape = Canon(c), "shape")
  \cup Flag(~e.chk \/ e.originsOK, "origin")

EventFlags(e, r) ==
  \* r: required response [c, res]
  CASE e.op = "reset"    -> ObsFlags(e, r.c)
    [] e.op = "ins"      -> Flag(e.res = "ok", "res") \cup Flag(e.retRootOK, "retroot") \cup ObsFlags(e, r.c)
    [] e.op = "del"      -> Flag(e.res = r.res, "res") \cup Flag(e.retRootOK, "retroot") \cup ObsFlags(e, r.c)
    \* storing an empty value is a delete; on an absent path "ok" and "notpresent" are both accepted
    [] e.op \in {"insEmpty", "insNil"}
                         -> Flag(e.res = r.res \/ (r.res = "notpresent" /\ e.res = "ok"), "res")
                            \cup ObsFlags(e, r.c)
    \* over-size value: any error (never ok, never panic), nothing changes
    [] e.op = "insBig"   -> Flag(e.res \notin {"ok", "panic"}, "res") \cup ObsFlags(e, r.c)
    [] e.op = "get"      -> ObsFlags(e, r.c)
    [] e.op = "sweep"    -> Flag(e.keysOK, "storekeys") \cup Flag(e.rtOK, "roundtrip")
    [] e.op = "rootgroups" ->
          Flag(\A g \in ToSet(e.groups) : Len(g) = 1, "rootsplit")
          \cup Flag(Cardinality({g[1] : g \in ToSet(e.groups)}) = Len(e.groups), "rootcollide")
    [] OTHER -> {"unknown-op"}

Required(e) ==
  CASE e.op = "reset"  -> [c |-> FromItems(e.init), res |-> "ok"]
    [] e.op = "ins"    -> InsertResp(content, e.p, e.v)
    [] e.op \in {"del", "insEmpty", "insNil"} -> DeleteResp(content, e.p)
    [] OTHER -> [c |-> content, res |-> "ok"]

TraceInit == content = EmptyContent /\ l = 1 /\ bad = {} /\ nbad = 0 /\ ntr = 0

TraceNext ==
  /\ l <= Len(Trace)
  /\ LET e == Trace[l]
         r == Required(e)
         f == EventFlags(e, r)
     IN  /\ content' = r.c
         /\ l' = l + 1
         /\ ntr' = IF e.op = "reset" THEN ntr + 1 ELSE ntr
         /\ nbad' = IF f = {} THEN nbad ELSE nbad + 1
         /\ bad' = IF f = {} \/ ~KeepBad(bad, e.op, f, {}) THEN bad
                   ELSE bad \cup {<<e.tid, l, e.op, f>>}

TraceSpec == TraceInit /\ [][TraceNext]_tvars

\* evaluated in every state; prints the verdict once, in the final state
Report == l <= Len(Trace) \/ PrintT(<<"VERIF_RESULT", l - 1, ntr, nbad, bad>>)
=============================================================================
