package exec

import (
	"bytes"
	"encoding/binary"
	"encoding/hex"
	"encoding/json"
	"fmt"
	"math/rand"
	"sort"

	"verifharness/bridge"
	"verifharness/tr"

	"github.com/0chain/common/core/util/wmpt"
)

// PEdit is one structural edit of a proof (indexes are 1-based record numbers).
type PEdit struct {
	E string `json:"e"`
	I int    `json:"i"`
	J int    `json:"j"`
	K int    `json:"k"`
	D int    `json:"d"`
}

// PPlan is a tampering plan emitted by TLC from WMPTProof.tla.
type PPlan struct {
	Trie    map[string][]any `json:"trie"` // "n0n1" -> [value, weight]
	Block   uint64           `json:"block"`
	Edits   []PEdit          `json:"edits"`
	Owner   string           `json:"owner"`
	MForged bool             `json:"mforged"`
}

// PStats collects coverage.
type PStats struct {
	Traces, Events, Panics, Forged, Rejected, OtherRoot, Honest, ModelForged int
	Distinct                                                                 map[string]bool
}

func pkey(ab string) []byte {
	nib := make([]byte, 64)
	nib[0] = ab[0] - '0'
	nib[63] = ab[1] - '0'
	k := make([]byte, 32)
	for i := range k {
		k[i] = nib[2*i]<<4 | nib[2*i+1]
	}
	return k
}

type pentry struct {
	ab  string
	val string
	w   uint64
}

func buildTrie(entries []pentry) *wmpt.WeightedMerkleTrie { return buildTrieMode(entries, 0) }

// buildTrieMode builds the prover's trie: mode 0 in memory; 1..4 over storage, committed at collapse level mode-1;
// 5..8 the same, then re-opened from (root, weight) so that every node is a storage reference until it is resolved.
func buildTrieMode(entries []pentry, mode int) *wmpt.WeightedMerkleTrie {
	if mode == 0 {
		t := wmpt.New(nil, nil)
		for _, e := range entries {
			if err := t.Update(pkey(e.ab), []byte(e.val), e.w); err != nil {
				panic(err)
			}
		}
		return t
	}
	db := &memKV{m: map[string][]byte{}}
	t := wmpt.New(nil, db)
	for _, e := range entries {
		if err := t.Update(pkey(e.ab), []byte(e.val), e.w); err != nil {
			panic(err)
		}
	}
	b, err := t.Commit((mode - 1) % 4)
	if err != nil {
		panic(err)
	}
	b.Commit(true)
	if mode >= 5 && t.Weight() > 0 {
		t = wmpt.New(wmpt.NewHashNode(t.Root(), t.Weight()), db)
	}
	return t
}

// honestRecords returns the prover's proof for block b and its records parsed by the bridge (nil records if the prover
// failed or emitted something the bridge cannot parse: the raw bytes are then judged as an honest proof all the same).
func honestRecords(t *wmpt.WeightedMerkleTrie, b uint64) ([]*bridge.WNode, []byte) {
	var proof []byte
	if Guard(func() string {
		_, p, err := t.GetBlockProof(b)
		if err != nil {
			return "err"
		}
		proof = p
		return "ok"
	}) != "ok" {
		return nil, nil
	}
	recs, err := bridge.ParseProof(proof)
	if err != nil {
		return nil, proof
	}
	var out []*bridge.WNode
	for _, r := range recs {
		n, err := bridge.ParseWNode(r)
		if err != nil || (n.Kind != 'B' && n.Kind != 'S' && n.Kind != 'V') {
			return nil, proof
		}
		out = append(out, n)
	}
	return out, proof
}

func cloneW(n *bridge.WNode) *bridge.WNode {
	c := *n
	for i, k := range n.Kids {
		if k != nil {
			kc := *k
			c.Kids[i] = &kc
		}
	}
	return &c
}

// applyEdit applies one structural edit; ok=false if it does not apply to the real records.
func applyEdit(t *wmpt.WeightedMerkleTrie, recs []*bridge.WNode, e PEdit, S uint64) ([]*bridge.WNode, bool) {
	if S == 0 {
		S = 1
	}
	at := func(i int) *bridge.WNode {
		if i < 1 || i > len(recs) {
			return nil
		}
		return recs[i-1]
	}
	switch e.E {
	case "reweight":
		n := at(e.I)
		if n == nil || n.Kind != 'B' || n.Kids[e.J] == nil || n.Kids[e.K] == nil || n.Kids[e.J].Weight <= uint64(e.D)*S {
			return recs, false
		}
		n.Kids[e.J].Weight -= uint64(e.D) * S
		n.Kids[e.K].Weight += uint64(e.D) * S
	case "swap":
		n := at(e.I)
		if n == nil || n.Kind != 'B' {
			return recs, false
		}
		n.Kids[e.J], n.Kids[e.K] = n.Kids[e.K], n.Kids[e.J]
	case "setw":
		n := at(e.I)
		if n == nil || (n.Kind != 'S' && n.Kind != 'V') {
			return recs, false
		}
		n.Weight = uint64(e.J) * S
	case "setval":
		n := at(e.I)
		if n == nil || n.Kind != 'V' {
			return recs, false
		}
		if len(n.Value) > 40 {
			// a forged value that differs from the honest one only in its last byte
			n.Value = append([]byte(nil), n.Value...)
			n.Value[len(n.Value)-1] ^= 1
		} else {
			n.Value = []byte("forged")
		}
	case "drop":
		if at(e.I) == nil {
			return recs, false
		}
		recs = append(append([]*bridge.WNode(nil), recs[:e.I-1]...), recs[e.I:]...)
	case "dup":
		if at(e.I) == nil {
			return recs, false
		}
		d := cloneW(recs[e.I-1])
		recs = append(append(append([]*bridge.WNode(nil), recs[:e.I]...), d), recs[e.I:]...)
	case "imitate":
		// node hashes carry no kind tag: a VALUE record whose weight/value bytes spell the hash preimage of a branch
		// (weight || 16 child hashes) or of a short node (key || child hash, first 8 key bytes read as the weight)
		// hashes to that node's hash; everything after it is dropped
		n := at(e.I)
		if n == nil {
			return recs, false
		}
		v := &bridge.WNode{Kind: 'V'}
		switch n.Kind {
		case 'B':
			for _, k := range n.Kids {
				if k == nil {
					v.Value = append(v.Value, bridge.EmptyState...)
					continue
				}
				v.Weight += k.Weight
				v.Value = append(v.Value, k.Hash...)
			}
		case 'S':
			if len(n.Key) < 8 {
				return recs, false
			}
			v.Weight = binary.BigEndian.Uint64(n.Key[:8])
			v.Value = append(append([]byte(nil), n.Key[8:]...), n.Child...)
		default:
			return recs, false
		}
		recs = append(append([]*bridge.WNode(nil), recs[:e.I-1]...), v)
	case "splice":
		other, _ := honestRecords(t, (uint64(e.J)-1)*S+1)
		if e.I < 1 || e.I > len(recs)+1 || e.K < 1 || e.K > len(other) {
			return recs, false
		}
		recs = append(append([]*bridge.WNode(nil), recs[:e.I-1]...), other[e.K-1:]...)
	default:
		return recs, false
	}
	return recs, true
}

func encodeRecords(recs []*bridge.WNode) []byte {
	var raw [][]byte
	for _, n := range recs {
		raw = append(raw, bridge.EncodeWNode(n))
	}
	return bridge.EncodeProof(raw)
}

func entriesJSON(entries []pentry) []any {
	out := make([]any, 0, len(entries))
	for _, e := range entries {
		out = append(out, []any{e.ab, e.val, e.w})
	}
	return out
}

func verifyOutcome(ev map[string]any, root []byte, block uint64, proof []byte) {
	var hash, value []byte
	res := Guard(func() string {
		h, v, err := wmpt.New(nil, nil).VerifyBlockProof(block, proof)
		if err != nil {
			return "err"
		}
		hash, value = h, v
		return "ok"
	})
	ev["res"] = res
	ev["rootmatch"] = res == "ok" && bytes.Equal(hash, root)
	ev["value"] = string(value)
	for _, c := range value {
		if c < 0x20 || c > 0x7e {
			ev["value"] = "hex:" + hex.EncodeToString(value)
			break
		}
	}
}

// RunProofPlan replays one TLC tampering plan on the real prover/verifier.
func RunProofPlan(w *tr.Writer, st *PStats, tid int, p PPlan) {
	var entries []pentry
	for ab, vw := range p.Trie {
		var wt uint64
		switch x := vw[1].(type) {
		case float64:
			wt = uint64(x)
		case json.Number:
			n, _ := x.Int64()
			wt = uint64(n)
		}
		entries = append(entries, pentry{ab, vw[0].(string), wt})
	}
	sort.Slice(entries, func(i, j int) bool { return entries[i].ab < entries[j].ab })
	// every fourth plan runs on long values (40..130 bytes): the tail of a value is bound by the hashes like its head
	longVals := tid%4 == 3
	if longVals {
		for i := range entries {
			entries[i].val += LongPad(i + 1)
		}
	}
	// the prover's trie rotates over in-memory / committed at a collapse level / re-opened from storage
	mode := tid % 9
	// real weights are the plan's weights times a scale (see wrun.scale): intervals, blocks and tampered weights stay multiples
	// of it, so the plan's small numbers decide every comparison the verifier makes; plans that pass a hash preimage off as a
	// value record (its weight is then arbitrary) run unscaled
	S := []uint64{1, 1, 1000, 1 << 20, 1<<33 + 7}[tid%5]
	for _, e := range p.Edits {
		if e.E == "imitate" {
			S = 1
		}
	}
	scaled := make([]pentry, len(entries))
	for i, e := range entries {
		scaled[i] = pentry{e.ab, e.val, e.w * S}
	}
	block := (p.Block-1)*S + 1 + []uint64{0, S - 1, S / 2}[tid%3]
	t := buildTrieMode(scaled, mode)
	if mode == 0 && tid%2 == 1 && len(scaled) > 0 {
		// hashed, then updated: the root hash is computed once, then one key gets another value and its own value back (the
		// path is dirty again, with cached hashes of the intermediate state around it)
		_ = t.Root()
		e := scaled[(tid/2)%len(scaled)]
		_ = t.Update(pkey(e.ab), []byte(e.val+"'"), e.w)
		_ = t.Root()
		_ = t.Update(pkey(e.ab), []byte(e.val), e.w)
	}
	// the proof is requested BEFORE the root hash is read: the prover must not depend on somebody having refreshed its
	// cached hashes since the last update
	recs, honest := honestRecords(t, block)
	root := append([]byte(nil), t.Root()...)
	if recs == nil {
		// the prover's own output is unusable for editing: submit it as it is, as the honest proof it claims to be
		ev := map[string]any{"tid": tid, "op": "proof", "entries": entriesJSON(entries), "block": p.Block, "nedits": 0,
			"reweighted": false, "imitated": false, "applied": true, "mforged": false, "kind": "honest-unparsed", "mode": mode}
		verifyOutcome(ev, root, block, honest)
		emitProof(w, st, ev, fmt.Sprint(len(entries), p.Block, "unparsed"))
		return
	}
	applied := true
	for _, e := range p.Edits {
		var ok bool
		recs, ok = applyEdit(t, recs, e, S)
		applied = applied && ok
	}
	proof := honest
	if len(p.Edits) > 0 {
		proof = encodeRecords(recs)
	}
	ev := map[string]any{"tid": tid, "op": "proof", "entries": entriesJSON(entries), "block": p.Block, "nedits": len(p.Edits),
		"reweighted": false, "imitated": false, "applied": applied, "mforged": p.MForged, "kind": "plan", "mode": mode}
	var kinds []string
	for _, e := range p.Edits {
		kinds = append(kinds, e.E)
		if e.E == "reweight" {
			ev["reweighted"] = true
		}
		if e.E == "imitate" {
			ev["imitated"] = true
		}
	}
	verifyOutcome(ev, root, block, proof)
	emitProof(w, st, ev, fmt.Sprint(len(entries), p.Block, kinds))
}

func emitProof(w *tr.Writer, st *PStats, ev map[string]any, sig string) {
	w.NextTrace()
	st.Traces++
	st.Events++
	switch {
	case ev["res"] == "panic":
		st.Panics++
	case ev["res"] == "err":
		st.Rejected++
	case ev["rootmatch"] == true:
		st.Honest++ // counted as "verifies to the trusted root" (honest or forged is decided by TLC)
	default:
		st.OtherRoot++
	}
	if ev["mforged"] == true {
		st.ModelForged++
	}
	st.Distinct[sig+fmt.Sprint(ev["res"], ev["rootmatch"])] = true
	w.Emit(ev)
}

// RunProofRandom: honest proofs of a larger random trie and byte-level /
// cross-trie tampering.
func RunProofRandom(w *tr.Writer, st *PStats, tid *int, r *rand.Rand) {
	nk := 3 + r.Intn(40)
	// real weights = small weights times a scale (see wrun.scale): the trace carries the small numbers
	S := []uint64{1, 1, 1000, 1 << 20, 1<<33 + 7, 1 << 40}[r.Intn(6)]
	var entries []pentry
	seen := map[string]bool{}
	t := wmpt.New(nil, nil)
	type rk struct {
		key []byte
		val string
		w   uint64
	}
	var rks []rk
	ladder := r.Intn(6) == 0
	if ladder {
		// the deepest trie there is: the all-zero key and, for every nibble position, the key that differs from it there and
		// only there: sixty-four nested branches, the longest proofs (one record per nibble plus the value record)
		nk = 65
	}
	for len(rks) < nk {
		k := make([]byte, 32)
		if ladder {
			if i := len(rks); i > 0 {
				k[(i-1)/2] = []byte{0x10, 0x01}[(i-1)%2]
			}
			v := fmt.Sprintf("v%d", len(rks))
			wt := uint64(1 + r.Intn(3))
			rks = append(rks, rk{k, v, wt})
			if err := t.Update(k, []byte(v), wt*S); err != nil {
				panic(err)
			}
			continue
		}
		r.Read(k)
		if r.Intn(3) == 0 && len(rks) > 0 { // share a long prefix with an existing key
			copy(k, rks[r.Intn(len(rks))].key[:1+r.Intn(31)])
		}
		if seen[string(k)] {
			continue
		}
		seen[string(k)] = true
		v := fmt.Sprintf("v%d", len(rks))
		if r.Intn(3) == 0 {
			v += LongPad(len(rks))
		}
		wt := uint64(1 + r.Intn(3))
		rks = append(rks, rk{k, v, wt})
		if err := t.Update(k, []byte(v), wt*S); err != nil {
			panic(err)
		}
	}
	sort.Slice(rks, func(i, j int) bool { return bytes.Compare(rks[i].key, rks[j].key) < 0 })
	for i, e := range rks {
		entries = append(entries, pentry{fmt.Sprintf("%03d", i), e.val, e.w})
	}
	// two of three provers work over storage: committed at a collapse level, and possibly re-opened from (root, weight)
	if r.Intn(3) > 0 {
		db := &memKV{m: map[string][]byte{}}
		t = wmpt.New(nil, db)
		for _, e := range rks {
			if err := t.Update(e.key, []byte(e.val), e.w*S); err != nil {
				panic(err)
			}
		}
		b, err := t.Commit(r.Intn(4))
		if err != nil {
			panic(err)
		}
		b.Commit(true)
		if r.Intn(2) == 0 {
			t = wmpt.New(wmpt.NewHashNode(t.Root(), t.Weight()), db)
		}
	}
	total := t.Weight()
	// the first proof is requested before the root hash is read for the first time (an in-memory prover has never hashed
	// anything at this point)
	b0 := uint64(1 + r.Intn(int(total)))
	if ladder {
		b0 = 1 // the all-zero key: the deepest leaf
	}
	_, honest0, err0 := t.GetBlockProof(b0)
	root := append([]byte(nil), t.Root()...)
	// another trie for cross-trie substitution
	t2 := wmpt.New(nil, nil)
	for i, e := range rks {
		wt := e.w
		if i == 0 {
			wt++
		}
		t2.Update(e.key, []byte(e.val+"x"), wt*S)
	}
	ej := entriesJSON(entries)
	for n := 0; n < 12; n++ {
		b := uint64(1 + r.Intn(int(total)))
		_, honest, err := t.GetBlockProof(b)
		if n == 0 {
			b, honest, err = b0, honest0, err0
		}
		if err != nil {
			honest = nil // judged as an honest proof that does not verify
		}
		proof := append([]byte(nil), honest...)
		kind := "honest"
		imitated := false
		sel := r.Intn(6)
		if n == 0 {
			sel = 0 // the pre-fetched proof is submitted as it is
		}
		switch sel {
		case 5:
			// pass the hash preimage of a branch / short record of the honest proof off as a value record
			kind = "imitate"
			recs, _ := honestRecords(t, b)
			if len(recs) == 0 {
				kind = "honest"
				break
			}
			i := 1 + r.Intn(len(recs))
			if nr, ok := applyEdit(t, recs, PEdit{E: "imitate", I: i}, 1); ok {
				proof = encodeRecords(nr)
				imitated = true
			} else {
				kind = "honest"
			}
		case 1:
			kind = "bitflip"
			for f := 0; f < 1+r.Intn(3); f++ {
				proof[r.Intn(len(proof))] ^= 1 << uint(r.Intn(8))
			}
			if r.Intn(2) == 0 && len(proof) > 8 {
				// the value record comes last: flip inside the tail of the proof bytes as well
				proof[len(proof)-1-r.Intn(8)] ^= 1 << uint(r.Intn(8))
			}
		case 2:
			kind = "truncate"
			proof = proof[:r.Intn(len(proof))]
		case 3:
			kind = "othertrie"
			b2 := uint64(1 + r.Intn(int(t2.Weight())))
			_, p2, err := t2.GetBlockProof(b2)
			if err == nil {
				proof = p2
			}
		case 4:
			kind = "otherblock"
			b2 := uint64(1 + r.Intn(int(total)))
			_, p2, err := t.GetBlockProof(b2)
			if err == nil {
				proof = p2
			}
		}
		*tid++
		// the trace carries the small numbers: entries with unscaled weights, the block's unit (see wrun.scale)
		ev := map[string]any{"tid": *tid, "op": "proof", "entries": ej, "block": (b-1)/S + 1, "nedits": map[bool]int{true: 0, false: 1}[kind == "honest"],
			"reweighted": false, "imitated": imitated, "applied": true, "mforged": false, "kind": kind}
		verifyOutcome(ev, root, b, proof)
		emitProof(w, st, ev, kind)
	}
}
