//go:build verif

package exec

import (
	"bytes"
	"fmt"
	"runtime"
	"strconv"
	"strings"
	"sync"
	"time"

	"verifharness/tr"

	"github.com/0chain/common/core/statecache"
)

// Sched is one TLC-emitted schedule of StateCacheConc.tla.
type Sched struct {
	Blocks     []string   `json:"blocks"`
	Writes     []string   `json:"writes"`
	Pre        int        `json:"pre"`
	Committers []string   `json:"committers"`
	Readers    [][]string `json:"readers"` // [id, block]
	Sched      []string   `json:"sched"`
	Adv        bool       `json:"adv"` // adversarial: a schedule of the unserialised design mutant (may be infeasible on the code)
}

type sproc struct {
	id       string
	arrived  chan string
	release  chan struct{}
	finished chan struct{}
	done     bool
	running  bool // released and not yet back at a yield point (adversarial replay: possibly blocked in a mutex)
	isCommit bool
	res      string
	val      string
	steps    int
	after    func(p *sproc) // runs in the process's goroutine right after its controlled part returned
	afterRes []any
}

var (
	schedMu    sync.Mutex
	schedProcs = map[uint64]*sproc{}
)

func gid() uint64 {
	var buf [64]byte
	n := runtime.Stack(buf[:], false)
	b := buf[:n]
	b = b[len("goroutine "):]
	i := bytes.IndexByte(b, ' ')
	id, _ := strconv.ParseUint(string(b[:i]), 10, 64)
	return id
}

func schedHook(point string) {
	g := gid()
	schedMu.Lock()
	p := schedProcs[g]
	schedMu.Unlock()
	if p == nil {
		return // uncontrolled goroutine (setup, final checks)
	}
	p.arrived <- point
	<-p.release
}

// ErrWatchdog signals an infrastructure problem of the scheduler (never a verdict).
type ErrWatchdog struct{ Msg string }

func (e ErrWatchdog) Error() string { return e.Msg }

// RunSched replays one schedule on real goroutines and emits one event.
func RunSched(w *tr.Writer, tid int, s Sched) error {
	statecache.VerifYieldHook = schedHook
	sc := statecache.NewStateCache()
	prevOf := func(i int) string {
		if i == 0 {
			return "genesis"
		}
		return s.Blocks[i-1]
	}
	idx := map[string]int{}
	for i, b := range s.Blocks {
		idx[b] = i
	}
	mkBC := func(b string) *statecache.BlockCache {
		i := idx[b]
		bc := statecache.NewBlockCache(sc, statecache.Block{Round: int64(i + 1), Hash: b, PrevHash: prevOf(i)})
		if s.Writes[i] != "" {
			bc.Set("k", &MutVal{B: []byte(s.Writes[i])})
		}
		return bc
	}
	for i := 0; i < s.Pre; i++ {
		mkBC(s.Blocks[i]).Commit()
	}
	procs := map[string]*sproc{}
	var order []string
	start := func(id string, isCommit bool, f func(p *sproc), after func(p *sproc)) {
		p := &sproc{id: id, arrived: make(chan string, 1), release: make(chan struct{}), finished: make(chan struct{}), isCommit: isCommit, after: after}
		procs[id] = p
		order = append(order, id)
		ready := make(chan struct{})
		go func() {
			g := gid()
			schedMu.Lock()
			schedProcs[g] = p
			schedMu.Unlock()
			close(ready)
			f(p)
			schedMu.Lock()
			delete(schedProcs, g)
			schedMu.Unlock()
			if p.after != nil {
				p.after(p) // no longer a controlled process: runs through the yield points freely
			}
			close(p.finished)
		}()
		<-ready
	}
	for _, c := range s.Committers {
		// "b'" is a second cache object of block b committed concurrently (the block was executed twice)
		blk := strings.TrimSuffix(c, "'")
		bc := mkBC(blk)
		start(c, true, func(p *sproc) { bc.Commit() }, func(p *sproc) {
			// Commit has returned: a lookup at the block by the same goroutine
			res, val := "miss", ""
			if Guard(func() string {
				if v, ok := sc.Get("k", blk); ok {
					res, val = "hit", string(v.(*MutVal).B)
				}
				return "ok"
			}) != "ok" {
				res = "panic"
			}
			p.afterRes = []any{blk, res, val}
		})
	}
	for _, r := range s.Readers {
		blk := r[1]
		start(r[0], false, func(p *sproc) {
			p.res = Guard(func() string {
				v, ok := sc.Get("k", blk)
				if !ok {
					return "miss"
				}
				p.val = string(v.(*MutVal).B)
				return "hit"
			})
		}, nil)
	}
	wait := func(p *sproc) error {
		select {
		case <-p.arrived:
			return nil
		case <-p.finished:
			p.done = true
			return nil
		case <-time.After(5 * time.Second):
			return ErrWatchdog{fmt.Sprintf("process %s did not reach a yield point", p.id)}
		}
	}
	for _, id := range order {
		if err := wait(procs[id]); err != nil {
			return err
		}
	}
	lockHolder := ""
	diverged, drained := 0, 0
	// poll waits up to d for a released process to reach its next yield point or to finish
	poll := func(p *sproc, d time.Duration) {
		select {
		case <-p.arrived:
			p.running = false
		case <-p.finished:
			p.running, p.done = false, true
		case <-time.After(d):
		}
	}
	const short = 20 * time.Millisecond
	advStep := func(id string) {
		p := procs[id]
		if p == nil || p.done {
			diverged++
			return
		}
		if p.running {
			poll(p, short)
			if p.running || p.done {
				diverged++ // still blocked (the code excludes this interleaving), or finished meanwhile
				return
			}
		}
		p.steps++
		p.running = true
		p.release <- struct{}{}
		poll(p, short)
	}
	if s.Adv {
		for _, id := range s.Sched {
			advStep(id)
		}
		// let everything finish: blocked processes proceed as the lock holders return
		deadline := time.Now().Add(5 * time.Second)
		for {
			alive := 0
			for _, id := range order {
				p := procs[id]
				if p.done {
					continue
				}
				alive++
				if p.running {
					poll(p, short)
				} else {
					drained++
					p.steps++
					p.running = true
					p.release <- struct{}{}
					poll(p, short)
				}
			}
			if alive == 0 {
				break
			}
			if time.Now().After(deadline) {
				return ErrWatchdog{"adversarial schedule did not drain"}
			}
		}
	}
	step := func(id string) error {
		p := procs[id]
		if p == nil || p.done {
			diverged++
			return nil
		}
		if p.isCommit && p.steps == 0 && lockHolder != "" {
			diverged++ // would block inside the mutex; the model never schedules this
			return nil
		}
		if p.isCommit && p.steps == 0 {
			lockHolder = id
		}
		p.steps++
		p.release <- struct{}{}
		if err := wait(p); err != nil {
			return err
		}
		if p.done && lockHolder == id {
			lockHolder = ""
		}
		return nil
	}
	for _, id := range s.Sched {
		if s.Adv {
			break
		}
		if err := step(id); err != nil {
			return err
		}
	}
	// run everything still alive to completion, one process at a time
	for progress := !s.Adv; progress; {
		progress = false
		for _, id := range order {
			p := procs[id]
			if p.done {
				continue
			}
			if p.isCommit && p.steps == 0 && lockHolder != "" {
				continue
			}
			drained++
			progress = true
			if err := step(id); err != nil {
				return err
			}
		}
	}
	statecache.VerifYieldHook = nil
	var results []any
	for _, r := range s.Readers {
		p := procs[r[0]]
		results = append(results, []any{r[0], r[1], p.res, p.val})
	}
	var final []any
	for _, b := range s.Blocks {
		res, val := "miss", ""
		if v, ok := sc.Get("k", b); ok {
			res, val = "hit", string(v.(*MutVal).B)
		}
		final = append(final, []any{b, res, val})
	}
	// the blocks committed concurrently (a block committed twice counts once)
	var cblocks []string
	seenB := map[string]bool{}
	for _, c := range s.Committers {
		if b := strings.TrimSuffix(c, "'"); !seenB[b] {
			seenB[b] = true
			cblocks = append(cblocks, b)
		}
	}
	after := []any{}
	for _, c := range s.Committers {
		if p := procs[c]; p != nil && p.afterRes != nil {
			after = append(after, p.afterRes)
		}
	}
	w.Emit(map[string]any{"tid": tid, "op": "sched", "blocks": s.Blocks, "writes": s.Writes, "pre": s.Pre, "after": after,
		"committers": cblocks, "cprocs": s.Committers, "results": results, "final": final, "diverged": diverged, "drained": drained, "adv": s.Adv, "nsched": len(s.Sched), "sched": s.Sched, "readers": s.Readers})
	return nil
}
