SPECIFICATION ISpec
CONSTANTS
  W = 6
  Idiom = "divide_back_guarded"
INVARIANTS MulExact AddExact SubExact LimbSanity
CHECK_DEADLOCK FALSE
